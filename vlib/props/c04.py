"""C04 - object lifecycle is monotone and gates every cryptographic use.

Part (i), EXHAUSTIVE: every operation sequence of length <= L over the 13-symbol alphabet
  Activate, Revoke(KEY_COMPROMISE), Revoke(CA_COMPROMISE), Revoke(CESSATION_OF_OPERATION),
  Revoke(UNSPECIFIED), Destroy, Encrypt, Decrypt, Sign, SignatureVerify, MAC, DeriveKey,
  GetWrapped (the object is the WRAPPING key of a Get on a separate, always gettable target key)
applied to ONE fresh object X, per cell (stored object type, usage mask).  The sequences are walked
as a trie (apply op, recurse, restore the SQLite file from a byte copy), every node is one
sequence and is judged on its last step (its prefix was judged at the ancestors).  Two bystander
objects live in the same store (target key T, Pre-Active; witness key W, Active) and must never
move.

Part (ii), RANDOM: Hypothesis histories of 6..40 steps over several objects made by
Register / Create / CreateKeyPair (random masks), all 7 revocation reason codes, DeriveKey with one
or two base objects, wrapping of arbitrary targets, engine restarts, read-only "noise" requests
(Get, GetAttributes, Locate, attempts to write the State attribute), and BATCHES: 2-4 items in one
request mixing state changes, uses and an item that fails (stop / continue); between the items the
states are not observable, so each object carries the set of states the reported results allow (a
successful use pins it to Active at that point), and after the batch the observed state must be
one of them - e.g. Active inside the batch and Pre-Active afterwards is a return to an earlier state.

Oracle (written from the property statement; states are OBSERVED through GetAttributes after
every step and cross-checked with the crypto_objects table read through stdlib sqlite3):
 (a) the state of an object changes only Pre-Active->Active by a successful Activate,
     Active->Deactivated by a successful Revoke whose reason is not KEY_COMPROMISE,
     any->Compromised by a successful Revoke with KEY_COMPROMISE or CA_COMPROMISE; nothing else
     changes any state (failed requests, uses, Destroy of another object, restarts, ...).
     Which revocations the server accepts is not judged; CA_COMPROMISE may deactivate or compromise.
 (b) a SUCCESSFUL Encrypt/Decrypt/Sign/SignatureVerify/MAC/wrapping implies: state before the
     request was Active, the kind is right (symmetric key for Encrypt/Decrypt/wrapping, private key
     for Sign, public key for SignatureVerify, any for MAC) and the usage mask given at creation
     holds the matching bit; a successful DeriveKey implies the Derive Key bit on every base object.
     Failed uses are never judged (C13 judges General Failure).
 (c) Destroy of an Active object fails and the object is still there.
"""
import itertools
import sqlite3

from hypothesis import strategies as st

from vlib import core, harness as H
from vlib import fixtures as F

PID = "C04"
LEVEL = "exploration"
RULE = ("(i) exhaustive: itertools.product over the 13-symbol alphabet {Activate, Revoke x 4 reason "
        "codes, Destroy, Encrypt, Decrypt, Sign, SignatureVerify, MAC, DeriveKey, Get-with-wrapping}, "
        "all sequences of length 1..3 (quick: 37 cells, plus the length-4 words starting with Activate "
        "for the three key kinds with every mask bit) / 1..4 (thorough: the 46 cells whose use is "
        "not ruled out by the object kind alone), 1..5 (thorough: SymmetricKey/all), 1..3 (thorough: "
        "the other 50 cells), applied to one fresh object per cell = stored object type x "
        "usage mask in {none, all, only-b, all-but-b for the seven use bits b}; (ii) random: "
        "Hypothesis histories (6-40 steps, several objects from Register/Create/CreateKeyPair, "
        "random masks, all 7 revocation reason codes, DeriveKey with 1-2 base objects, engine "
        "restarts, read-only noise).  non-trivial = the sequence contains an observed state change "
        "of an object followed by a cryptographic use of that object or by a second state change "
        "of it; distinct by (type, mask, sequence) spec hash")
ASSUMPTIONS = [
    "states are what GetAttributes reports after each step; the raw crypto_objects.state column "
    "(KMIP State enumeration values 1..6) must agree, a row missing from managed_objects = gone",
    "the usage mask of an object is the one given in the creating request (no request of the "
    "alphabet changes it)",
    "part (i) reuses one engine per cell and rewinds the SQLite file under it (connection pool "
    "disposed first); the first findings of every bucket are re-executed linearly on a fresh "
    "server before they are reported",
    "a Get with a wrapping specification counts as a use of the wrapping key only if the answer "
    "carries key wrapping data",
    "after a successful Destroy the object may be absent or reported DESTROYED(_COMPROMISED)",
]
SHRINK_BUDGET = 150

# ---------------------------------------------------------------- KMIP spec constants (not imported)
STATE_BY_VALUE = {1: "PRE_ACTIVE", 2: "ACTIVE", 3: "DEACTIVATED", 4: "COMPROMISED", 5: "DESTROYED",
                  6: "DESTROYED_COMPROMISED"}
RANK = {"PRE_ACTIVE": 0, "ACTIVE": 1, "DEACTIVATED": 2, "COMPROMISED": 3}
BIT = {"SIGN": 0x1, "VERIFY": 0x2, "ENCRYPT": 0x4, "DECRYPT": 0x8, "WRAP_KEY": 0x10,
       "MAC_GENERATE": 0x80, "DERIVE_KEY": 0x200}
USE_BITS = ["ENCRYPT", "DECRYPT", "SIGN", "VERIFY", "MAC_GENERATE", "DERIVE_KEY", "WRAP_KEY"]
ALL = F.ALL_MASK
# use -> (matching bit, required kind or None)
USES = {"Encrypt": ("ENCRYPT", "SymmetricKey"), "Decrypt": ("DECRYPT", "SymmetricKey"),
        "Sign": ("SIGN", "PrivateKey"), "SignatureVerify": ("VERIFY", "PublicKey"),
        "MAC": ("MAC_GENERATE", None), "GetWrapped": ("WRAP_KEY", "SymmetricKey"),
        "DeriveKey": ("DERIVE_KEY", None)}
COMPROMISE = ("KEY_COMPROMISE", "CA_COMPROMISE")
REASONS = ["UNSPECIFIED", "KEY_COMPROMISE", "CA_COMPROMISE", "AFFILIATION_CHANGED", "SUPERSEDED",
           "CESSATION_OF_OPERATION", "PRIVILEGE_WITHDRAWN"]

ALPHABET = ["Activate", "Revoke:KEY_COMPROMISE", "Revoke:CA_COMPROMISE",
            "Revoke:CESSATION_OF_OPERATION", "Revoke:UNSPECIFIED", "Destroy", "Encrypt", "Decrypt",
            "Sign", "SignatureVerify", "MAC", "DeriveKey", "GetWrapped"]

AESCBC = {"alg": "AES", "mode": "CBC", "pad": "PKCS5"}
AESCTR = {"alg": "AES", "mode": "CTR"}
IV = "000102030405060708090a0b0c0d0e0f"
PLAIN = "00112233445566778899aabbccddeeff"
SIGPARAMS = [{"alg": "RSA", "hash": "SHA_256", "pad": "PSS"},
             {"alg": "RSA", "hash": "SHA_256", "pad": "PKCS1v15"}]
DERIVED_MASK = 12


def mask_label(mask):
    if mask is None:
        return "absent"
    if mask == 0:
        return "none"
    if mask == ALL:
        return "all"
    for b in USE_BITS:
        if mask == BIT[b]:
            return "only-" + b
        if mask == ALL & ~BIT[b]:
            return "allbut-" + b
    return "other"


def mask_of(label):
    if label == "none":
        return 0
    if label == "all":
        return ALL
    kind, b = label.split("-", 1)
    return BIT[b] if kind == "only" else ALL & ~BIT[b]


def opclass(op):
    """Bucket-level name of an operation symbol (root cause granularity)."""
    if op.startswith("Revoke:"):
        code = op.split(":", 1)[1]
        return "Revoke(%s)" % (code if code in COMPROMISE else "other")
    return op


def _cbc_ciphertext(key_hex):
    """Independent AES-CBC-PKCS7 encryption (so that Decrypt can succeed when the gate is open)."""
    from cryptography.hazmat.primitives import padding
    from cryptography.hazmat.primitives.ciphers import Cipher, algorithms, modes
    key = bytes.fromhex(key_hex)
    p = padding.PKCS7(128).padder()
    data = p.update(bytes.fromhex(PLAIN)) + p.finalize()
    e = Cipher(algorithms.AES(key), modes.CBC(bytes.fromhex(IV))).encryptor()
    return (e.update(data) + e.finalize()).hex()


# ---------------------------------------------------------------- the world (server + model)
class World(object):
    def __init__(self):
        H.CLOCK.now = 1_700_000_000
        self.srv = H.Server()
        self.objs = []          # {"uid","otype","mask","key","state","changes","nt"}
        self.target = None      # index of the dedicated wrap target
        self._enc = {}
        self._ct = {}
        self.stats = {}

    def close(self):
        self.srv.close()

    # --- transport
    def call(self, item, v=(1, 2)):
        key = core.canon(item) + repr(v)
        data = self._enc.get(key)
        if data is None:
            data = self._enc[key] = H.encode_request({"v": list(v), "items": [item]})
        H.CLOCK.tick()
        r = self.srv.process(data, ("alice", None))
        if r["resp"] is None:
            return {"status": "REQUEST_ERROR", "reason": type(r["error"]).__name__,
                    "message": str(r["error"]), "payload": None}
        return H.response_plain(r["resp"], tuple(v))[0]

    # --- observers
    def observe(self, i):
        """State of object i as GetAttributes reports it: a State name, NONE (object has no State
        attribute) or GONE (the object cannot be located)."""
        r = self.call({"op": "GetAttributes", "uid": self.objs[i]["uid"], "names": ["State"]})
        if r["status"] == "SUCCESS":
            for name, _, val in r["payload"]["attrs"]:
                if name == "State":
                    return val
            return "NONE"
        if r["reason"] == "ITEM_NOT_FOUND":
            return "GONE"
        raise core.HarnessError("GetAttributes(State) failed unexpectedly: %r" % (r,))

    def raw_states(self):
        """uid -> state name / NONE / (absent = gone), read through stdlib sqlite3."""
        con = sqlite3.connect("file:%s?mode=ro" % self.srv.db, uri=True)
        try:
            out = {str(r[0]): "NONE" for r in con.execute("select uid from managed_objects")}
            for uid, s in con.execute("select uid, state from crypto_objects"):
                if str(uid) in out:
                    out[str(uid)] = STATE_BY_VALUE.get(s, "RAW_%s" % s)
            return out
        finally:
            con.close()

    # --- snapshots for the trie walk
    def snapshot(self):
        with open(self.srv.db, "rb") as f:
            data = f.read()
        return (data, [dict(o) for o in self.objs], H.CLOCK.now)

    def restore(self, snap):
        data, objs, now = snap
        with open(self.srv.db, "rb") as f:
            cur = f.read()
        if cur != data:
            self.srv.engine._data_store.dispose()
            with open(self.srv.db, "wb") as f:
                f.write(data)
        self.objs = [dict(o) for o in objs]
        H.CLOCK.now = now

    # --- creators
    def _add(self, uid, otype, mask, key=None):
        self.objs.append({"uid": uid, "otype": otype, "mask": mask or 0, "key": key,
                          "state": None, "changes": 0, "nt": False})
        i = len(self.objs) - 1
        st0 = self.observe(i)
        raw = self.raw_states().get(uid, "GONE")
        self.objs[i]["state"] = st0
        return i, ([("C04|api-state-differs-from-stored-state",
                     "new object %s: GetAttributes says %s, table says %s" % (uid, st0, raw))]
                   if raw != st0 else [])

    def register(self, otype, mask, label):
        it = F.register_item(otype, mask=mask, label=label)
        r = self.call(it)
        if r["status"] != "SUCCESS":
            raise core.HarnessError("register failed: %r" % (r,))
        val = it["obj"]["value"]
        key = val if otype in ("SymmetricKey", "SplitKey") and len(val) in (32, 48, 64) else None
        return self._add(r["payload"]["uid"], otype, mask if otype in F.HAS_MASK else 0, key)

    def create(self, mask, length):
        r = self.call(F.create_item(mask=mask, alg="AES", length=length))
        if r["status"] != "SUCCESS":
            raise core.HarnessError("create failed: %r" % (r,))
        return self._add(r["payload"]["uid"], "SymmetricKey", mask)

    def keypair(self, mask_priv, mask_pub, mask_common=None):
        """mask_common: a usage mask in the Common Template-Attribute; it is what a key gets whose
        own template names none (mask_priv / mask_pub None), and is overridden by one that does."""
        it = F.keypair_item(mask_priv, mask_pub, 1024)
        if mask_common is not None:
            it["common"] = it["common"] + [["Cryptographic Usage Mask", mask_common]]
            if mask_priv is None:
                it["private"], mask_priv = [], mask_common
            if mask_pub is None:
                it["public"], mask_pub = [], mask_common
        r = self.call(it)
        if r["status"] != "SUCCESS":
            raise core.HarnessError("create key pair failed: %r" % (r,))
        i, b1 = self._add(r["payload"]["priv"], "PrivateKey", mask_priv)
        j, b2 = self._add(r["payload"]["pub"], "PublicKey", mask_pub)
        return i, j, b1 + b2

    # --- request builders
    def item_for(self, op, i, aux=None, var=0):
        """(item, addressed object indices, indices whose state the request may change)."""
        o = self.objs[i]
        u = o["uid"]
        if op == "Activate":
            return {"op": "Activate", "uid": u}, [i], [i]
        if op.startswith("Revoke:"):
            return {"op": "Revoke", "uid": u, "code": op.split(":", 1)[1]}, [i], [i]
        if op == "Destroy":
            return {"op": "Destroy", "uid": u}, [i], [i]
        if op == "Encrypt":
            return {"op": "Encrypt", "uid": u, "params": AESCBC, "data": PLAIN, "iv": IV}, [i], []
        if op == "Decrypt":
            if o["key"] and not var:
                ct = self._ct.get(o["key"])
                if ct is None:
                    ct = self._ct[o["key"]] = _cbc_ciphertext(o["key"])
                return {"op": "Decrypt", "uid": u, "params": AESCBC, "data": ct, "iv": IV}, [i], []
            return {"op": "Decrypt", "uid": u, "params": AESCTR, "data": PLAIN, "iv": IV}, [i], []
        if op == "Sign":
            return {"op": "Sign", "uid": u, "params": SIGPARAMS[var % 2], "data": PLAIN}, [i], []
        if op == "SignatureVerify":
            it = {"op": "SignatureVerify", "uid": u, "params": SIGPARAMS[var % 2], "data": PLAIN,
                  "sig": "ab" * 128}
            if var >= 2:
                # the rarely used request forms: Digested Data instead of / next to Data
                it["digested"] = "5c" * 32
                if var == 2:
                    it["data"] = None
            return it, [i], []
        if op == "MAC":
            return {"op": "MAC", "uid": u, "params": {"alg": "HMAC_SHA256"}, "data": PLAIN}, [i], []
        if op == "DeriveKey":
            bases = [i] if aux is None or aux == i else [i, aux]
            # HASH takes either data or the keying object, HMAC (HKDF) takes both
            method = "HASH" if var else "HMAC"
            dp = {"params": {"hash": "SHA_256"}}
            if method == "HMAC" and len(bases) == 1:
                dp["data"] = "0102"
            return {"op": "DeriveKey", "uids": [self.objs[b]["uid"] for b in bases], "method": method,
                    "attrs": [["Cryptographic Length", 128], ["Cryptographic Algorithm", "AES"],
                              ["Cryptographic Usage Mask", DERIVED_MASK]], "dp": dp}, bases, []
        if op == "GetWrapped":
            t = self.target if aux is None or aux == i else aux
            return {"op": "Get", "uid": self.objs[t]["uid"],
                    "wrap": {"eki": {"uid": u, "params": {"mode": "NIST_KEY_WRAP"}},
                             "enc": "NO_ENCODING"}}, [i, t], []
        # read-only noise (hist part)
        if op == "Noise:Get":
            return {"op": "Get", "uid": u}, [i], []
        if op == "Noise:GetAttributes":
            return {"op": "GetAttributes", "uid": u}, [i], []
        if op == "Noise:Locate":
            return {"op": "Locate", "attrs": [["State", "ACTIVE"]]}, [], []
        if op == "Noise:ModifyState":
            return {"op": "ModifyAttribute", "uid": u,
                    "attr": ["State", ["ACTIVE", "PRE_ACTIVE"][var % 2]]}, [i], []
        if op == "Noise:SetState20":
            return {"op": "SetAttribute", "uid": u,
                    "new": ["State", ["ACTIVE", "PRE_ACTIVE"][var % 2]]}, [i], []
        raise ValueError(op)

    # --- one judged step
    def step(self, op, i, aux=None, var=0):
        """Apply one operation symbol to object i, observe, judge.  Returns dict(ok, reason, buckets,
        changed (did object i's observed state change), pre, classes)."""
        o = self.objs[i]
        pre = o["state"]
        item, addressed, targets = self.item_for(op, i, aux, var)
        v = (2, 0) if op == "Noise:SetState20" else (1, 2)
        r = self.call(item, v)
        ok = r["status"] == "SUCCESS"
        oc = opclass(op)
        buckets = []
        if op in USES and ok:
            self._judge_use(op, i, addressed, r, buckets)
        if op == "Destroy" and pre == "ACTIVE":
            if ok:
                buckets.append(("C04|destroy-of-active-succeeded",
                                "Destroy of object %s (%s, state ACTIVE) answered SUCCESS" % (o["uid"], o["otype"])))
            else:
                self._still_there(i, buckets)
        self._judge_changes(oc, ok, r, addressed, targets, buckets)
        if op == "DeriveKey" and ok and r["payload"] and r["payload"].get("uid"):
            _, b = self._add(r["payload"]["uid"], "SymmetricKey", DERIVED_MASK)
            buckets.extend(b)
        changed = self.objs[i]["state"] != pre
        name = "Revoke(%s)" % op.split(":", 1)[1] if op.startswith("Revoke:") else op
        cls = "%s@%s=%s" % (name, pre, "ok" if ok else "fail")
        return {"ok": ok, "reason": r.get("reason"), "buckets": buckets, "changed": changed,
                "pre": pre, "cls": cls, "use_ok": bool(op in USES and ok and self._was_use(op, r))}

    # --- several operations in ONE request
    ALL_STATES = ("PRE_ACTIVE", "ACTIVE", "DEACTIVATED", "COMPROMISED", "DESTROYED",
                  "DESTROYED_COMPROMISED", "GONE")

    def batch_step(self, ops, cont=False):
        """ops = [(op, i, aux, var) | ("Fail",)] sent as one batch.  States cannot be observed
        between the items, so every object carries the SET of states the reported results allow:
        a successful Activate/Revoke/Destroy adds the images under the allowed transitions, a
        successful use needs ACTIVE to be possible at that point and pins the set to {ACTIVE};
        after the batch the observed state of every object must be one of its possible states.
        -> dict(buckets, classes, changed)"""
        items, meta = [], []
        for o in ops:
            if o[0] == "Fail":
                items.append({"op": "Get", "uid": "987654"})
                meta.append(("Fail", None, [], []))
                continue
            op, i, aux, var = o
            item, addressed, targets = self.item_for(op, i, aux, var)
            items.append(item)
            meta.append((op, i, addressed, targets))
        spec = {"v": [1, 2], "items": items}
        if cont:
            spec["cont"] = "CONTINUE"
        H.CLOCK.tick()
        rr = self.srv.process(H.encode_request(spec), ("alice", None))
        buckets, classes = [], []
        if rr["resp"] is None:
            return {"buckets": [], "classes": ["h:batch:request-error"], "changed": False}
        results = H.response_plain(rr["resp"], (1, 2))
        possible = [set([o["state"]]) for o in self.objs]
        changers = [[] for _ in self.objs]
        n_objs = len(self.objs)
        derived = []
        for (op, i, addressed, targets), r in zip(meta, results):
            ok = r["status"] == "SUCCESS"
            if op == "Fail":
                continue
            oc = opclass(op)
            if op in USES and ok and self._was_use(op, r):
                o = self.objs[i]
                keep = o["state"]
                o["state"] = "ACTIVE" if "ACTIVE" in possible[i] else sorted(possible[i])[0]
                try:
                    self._judge_use(op, i, addressed, r, buckets)
                finally:
                    o["state"] = keep
                if op != "DeriveKey" and "ACTIVE" in possible[i]:
                    possible[i] = set(["ACTIVE"])      # the use succeeded: it was Active then
            if op == "DeriveKey" and ok and r["payload"] and r["payload"].get("uid"):
                derived.append(r["payload"]["uid"])
            if ok and targets:
                if op == "Destroy" and possible[i] == set(["ACTIVE"]):
                    buckets.append(("C04|destroy-of-active-succeeded",
                                    "Destroy of object %s (state ACTIVE) inside a batch answered "
                                    "SUCCESS" % self.objs[i]["uid"]))
                # a successful request that leaves the state alone is not judged (as in the
                # single-request steps): identity is always possible
                possible[i] = possible[i] | set(n for old in possible[i] for n in self.ALL_STATES
                                                if self._allowed(oc, old, n))
                changers[i].append(oc)
        raw = self.raw_states()
        changed = False
        for j in range(n_objs):
            o = self.objs[j]
            old = o["state"]
            new = raw.get(o["uid"], "GONE")
            api = self.observe(j)
            if api != new:
                buckets.append(("C04|api-state-differs-from-stored-state",
                                "object %s after a batch: GetAttributes says %s, table says %s"
                                % (o["uid"], api, new)))
                new = api
            if new not in possible[j]:
                shown = [m[0] for m in meta]
                stat = [r["status"] for r in results]
                if changers[j] or possible[j] != set([old]):
                    back = (RANK.get(new, 9) < min(RANK.get(x, 9) for x in possible[j]))
                    buckets.append(("C04|batch|%s|%s|by=%s" % (
                        "returned-to-earlier-state" if back else "illegal-transition",
                        "%s->%s" % ("/".join(sorted(possible[j])), new),
                        "+".join(changers[j]) or "-"),
                        "object %s (%s) was %s; batch %s answered %s; the reported results allow "
                        "%s afterwards, observed %s" % (o["uid"], o["otype"], old, shown, stat,
                                                        sorted(possible[j]), new)))
                else:
                    buckets.append(("C04|state-changed-without-successful-state-operation|%s->%s"
                                    % (old, new),
                                    "object %s (%s): %s->%s after batch %s answered %s" % (
                                        o["uid"], o["otype"], old, new, shown, stat)))
            if new != old:
                o["state"] = new
                o["changes"] += 1
                changed = True
        for uid in derived:
            _, b = self._add(uid, "SymmetricKey", DERIVED_MASK)
            buckets.extend(b)
        nfail = sum(1 for r in results if r["status"] != "SUCCESS")
        classes.append("h:batch:items=%d:failed=%d:%s" % (len(items), nfail,
                                                          "continue" if cont else "stop"))
        if any(changers) and nfail:
            classes.append("h:batch:state-change-and-failure-in-one-batch")
        return {"buckets": buckets, "classes": classes, "changed": changed,
                "touched": [m[1] for m in meta if m[1] is not None]}

    @staticmethod
    def _was_use(op, r):
        if op != "GetWrapped":
            return True
        sec = (r.get("payload") or {}).get("secret") or {}
        return sec.get("wrap") is not None

    def _judge_use(self, op, i, addressed, r, buckets):
        if not self._was_use(op, r):
            return
        bit, kind = USES[op]
        o = self.objs[i]
        what = "%s on object %s (%s, mask %s, state %s) answered SUCCESS" % (
            op, o["uid"], o["otype"], mask_label(o["mask"]), o["state"])
        if op == "DeriveKey":
            for b in addressed:
                ob = self.objs[b]
                if not ob["mask"] & BIT[bit]:
                    buckets.append(("C04|use-succeeded-without-mask-bit|DeriveKey",
                                    "DeriveKey with base object %s (%s, mask %s) answered SUCCESS"
                                    % (ob["uid"], ob["otype"], mask_label(ob["mask"]))))
            return
        if o["state"] != "ACTIVE":
            buckets.append(("C04|use-succeeded-while-not-active|%s|state=%s" % (op, o["state"]), what))
        if kind is not None and o["otype"] != kind:
            buckets.append(("C04|use-succeeded-on-wrong-kind|%s|type=%s" % (op, o["otype"]), what))
        if not o["mask"] & BIT[bit]:
            buckets.append(("C04|use-succeeded-without-mask-bit|%s" % op, what))

    def _still_there(self, i, buckets):
        o = self.objs[i]
        g = self.call({"op": "Get", "uid": o["uid"]})
        a = self.call({"op": "GetAttributes", "uid": o["uid"]})
        row = o["uid"] in self.raw_states()
        if g["status"] != "SUCCESS" or a["status"] != "SUCCESS" or not row:
            buckets.append(("C04|object-missing-after-refused-destroy-of-active",
                            "Get=%s/%s GetAttributes=%s/%s row-present=%s" % (
                                g["status"], g["reason"], a["status"], a["reason"], row)))

    def _judge_changes(self, oc, ok, r, addressed, targets, buckets):
        raw = self.raw_states()
        for j, o in enumerate(self.objs):
            old = o["state"]
            new = raw.get(o["uid"], "GONE")
            if j in addressed or old == "GONE" and new != "GONE":
                api = self.observe(j)
                if api != new:
                    buckets.append(("C04|api-state-differs-from-stored-state",
                                    "object %s after %s: GetAttributes says %s, table says %s"
                                    % (o["uid"], oc, api, new)))
                    new = api
            if new == old:
                continue
            o["state"] = new
            o["changes"] += 1
            tr = "%s->%s" % (old, new)
            back = (" (rank decreases)" if RANK.get(new, 9) < RANK.get(old, -1) else "")
            det = "object %s (%s): %s after %s answered %s/%s%s" % (
                o["uid"], o["otype"], tr, oc, r["status"], r.get("reason"), back)
            if not ok:
                buckets.append(("C04|state-changed-by-failed-op|%s|%s" % (oc, tr), det))
            elif j not in addressed:
                buckets.append(("C04|state-of-unaddressed-object-changed|%s|by=%s" % (tr, oc), det))
            elif j not in targets or not self._allowed(oc, old, new):
                buckets.append(("C04|illegal-transition|%s|by=%s" % (tr, oc), det))

    @staticmethod
    def _allowed(oc, old, new):
        if oc == "Destroy":
            return new in ("GONE", "DESTROYED", "DESTROYED_COMPROMISED")
        if oc == "Activate":
            return (old, new) == ("PRE_ACTIVE", "ACTIVE")
        if oc.startswith("Revoke("):
            if (old, new) == ("ACTIVE", "DEACTIVATED"):
                return oc != "Revoke(KEY_COMPROMISE)"
            if new == "COMPROMISED" and old in ("PRE_ACTIVE", "ACTIVE", "DEACTIVATED"):
                return oc in ("Revoke(KEY_COMPROMISE)", "Revoke(CA_COMPROMISE)")
        return False

    def passive(self, oc, full=False):
        """Judge a step that addresses no object (restart, creation): nothing may move.  With
        full=True every object is read through GetAttributes as well."""
        buckets = []
        addressed = list(range(len(self.objs))) if full else []
        self._judge_changes(oc, True, {"status": "SUCCESS"}, addressed, [], buckets)
        # a passive step has no addressed object by definition: rename the bucket accordingly
        out = []
        for k, d in buckets:
            out.append((k.replace("C04|illegal-transition|", "C04|state-of-unaddressed-object-changed|"), d))
        return out


# ---------------------------------------------------------------- part (i): linear + trie
X = 2      # index of the object under test in a trie world (0 = target T, 1 = witness W)


def setup_cell(w, otype, mask):
    t, b0 = w.register("SymmetricKey", ALL, "target")
    w.target = t
    wi, b1 = w.register("SymmetricKey", ALL, "witness")
    r = w.call({"op": "Activate", "uid": w.objs[wi]["uid"]})
    if r["status"] != "SUCCESS":
        raise core.HarnessError("cannot activate the witness: %r" % (r,))
    w.objs[wi]["state"] = w.observe(wi)
    x, b2 = w.register(otype, mask, "x")
    assert (t, wi, x) == (0, 1, X)
    return b0 + b1 + b2


def _dedup(buckets):
    seen = {}
    for k, d in buckets:
        seen.setdefault(k, d)
    return list(seen.items())


def run_seq(spec):
    """Linear execution of one sequence on a fresh server: (buckets, nontrivial, classes)."""
    w = World()
    try:
        buckets = list(setup_cell(w, spec["otype"], spec["mask"]))
        had_change = False
        nt = False
        classes = []
        for op in spec["ops"]:
            if op not in ALPHABET:
                continue
            res = w.step(op, X)
            buckets.extend(res["buckets"])
            if had_change and (op in USES or res["changed"]):
                nt = True
            had_change = had_change or res["changed"]
            classes.append(res["cls"])
        return _dedup(buckets), nt, classes
    finally:
        w.close()


def trie_worker(otype, mlabel, maxdepth, first_ops):
    """All sequences of itertools.product(first_ops, ALPHABET, ..., ALPHABET) (maxdepth symbols) and
    all their non-empty prefixes, each exactly once: the product is generated in lexicographic
    order, so the world only has to be rewound to the longest prefix shared with the previous
    tuple (a trie walk)."""
    col = core.Collector(PID)
    mask = mask_of(mlabel)
    w = World()
    confirmed = {}
    try:
        b0 = setup_cell(w, otype, mask)
        if b0:
            col.record({"kind": "seq", "otype": otype, "mask": mask, "ops": []}, buckets=b0)
        cellcls = ["cell:%s/%s" % (otype, mlabel), "type:" + otype, "mask:" + mlabel]
        snaps = [w.snapshot()]                   # snaps[k]: the world after prev[:k]
        infos = [(False, False, frozenset())]     # (had a state change, non-trivial, uses that succeeded)
        prev = ()
        for seq in itertools.product(first_ops, *([ALPHABET] * (maxdepth - 1))):
            p = 0
            while p < len(prev) and prev[p] == seq[p]:
                p += 1
            del snaps[p + 1:]
            del infos[p + 1:]
            w.restore(snaps[p])
            for k in range(p, maxdepth):
                op = seq[k]
                had_change, nt, succ = infos[k]
                res = w.step(op, X)
                ops = list(seq[:k + 1])
                spec = {"kind": "seq", "otype": otype, "mask": mask, "ops": ops}
                nt2 = nt or (had_change and (op in USES or res["changed"]))
                hc2 = had_change or res["changed"]
                succ2 = succ | {op} if res["use_ok"] else succ
                buckets = res["buckets"]
                if buckets:
                    buckets = _confirm(spec, _dedup(buckets), confirmed)
                col.record(spec, nontrivial=nt2,
                           classes=cellcls + [res["cls"], "len:%d" % len(ops)], buckets=buckets)
                if res["use_ok"]:
                    col.bump("i_steps_successful_use:" + op)
                for u in succ2:
                    col.bump("i_sequences_with_successful_use:" + u)
                if succ2:
                    col.bump("i_sequences_with_any_successful_use")
                if res["changed"]:
                    col.bump("i_steps_changing_state")
                if k + 1 < maxdepth:
                    snaps.append(w.snapshot())
                    infos.append((hc2, nt2, succ2))
            prev = seq
        col.bump("i_jobs")
        if confirmed.get("__not_reproduced__"):
            col.bump("i_trie_findings_not_reproduced_by_linear_execution", confirmed["__not_reproduced__"])
    finally:
        w.close()
    return col


def _confirm(spec, buckets, confirmed):
    """Findings of the trie walk are reported only as the linear re-execution on a fresh server
    shows them (first 3 per bucket key and worker are re-executed)."""
    todo = [k for k, _ in buckets if confirmed.get(k, 0) < 3]
    if not todo:
        return buckets
    lin = dict(run_seq(spec)[0])
    out = []
    for k, d in buckets:
        if k not in todo:
            out.append((k, d))
            continue
        if k in lin:
            confirmed[k] = confirmed.get(k, 0) + 1
            out.append((k, lin[k]))
        else:
            # the trie walk rewinds the database file under a running engine: if the engine keeps
            # anything about an object outside the database, a branch can see what a sibling
            # branch left there - not a history a client can produce.  Only what the linear
            # execution on a fresh server reproduces is reported (the same sequence is part of
            # the enumeration as a word of its own, and is then confirmed linearly).
            confirmed["__not_reproduced__"] = confirmed.get("__not_reproduced__", 0) + 1
    return out


# which (type, mask) cells
TYPES = list(H.OBJECT_TYPES)


def _kind_allows(otype, bit):
    """May an object of this type, by the statement, ever be used with this bit's operation?"""
    if otype == "OpaqueData":
        return False
    if bit in ("ENCRYPT", "DECRYPT", "WRAP_KEY"):
        return otype == "SymmetricKey"
    if bit == "SIGN":
        return otype == "PrivateKey"
    if bit == "VERIFY":
        return otype == "PublicKey"
    return True      # MAC_GENERATE, DERIVE_KEY: the statement does not fix the kind


FIXED_KIND = [("SymmetricKey", "ENCRYPT"), ("SymmetricKey", "DECRYPT"), ("SymmetricKey", "WRAP_KEY"),
              ("PrivateKey", "SIGN"), ("PublicKey", "VERIFY"), ("SymmetricKey", "MAC_GENERATE"),
              ("SymmetricKey", "DERIVE_KEY")]


def all_cells():
    out = []
    for t in TYPES:
        out.append((t, "none"))
        if t == "OpaqueData":            # no usage mask attribute on opaque objects
            continue
        out.append((t, "all"))
        for b in USE_BITS:
            out.append((t, "only-" + b))
            out.append((t, "allbut-" + b))
    return out


def _relevant(t, m):
    """Cells in which, by the statement, the use matching the mask's bit is not ruled out by the
    object kind alone (plus the none/all masks of every type)."""
    if m in ("none", "all"):
        return True
    return _kind_allows(t, m.split("-", 1)[1])


def plan(tier):
    """[(otype, mask label, depth)]: every sequence of length 1..depth is enumerated for the cell."""
    out = []
    for t, m in all_cells():
        if tier == "quick":
            if not _relevant(t, m):
                continue
            if m.startswith("only-") and (t, m.split("-", 1)[1]) not in FIXED_KIND:
                continue
            out.append((t, m, 3))
        elif (t, m) == ("SymmetricKey", "all"):
            out.append((t, m, 5))
        else:
            out.append((t, m, 4 if _relevant(t, m) else 3))
    return out


def trie_jobs(tier):
    jobs = []
    groups3 = [ALPHABET[0:5], ALPHABET[5:9], ALPHABET[9:13]]
    for t, m, d in sorted(plan(tier), key=lambda c: -c[2]):     # the long jobs first
        for g in (groups3 if d <= 3 else [[op] for op in ALPHABET]):
            jobs.append((t, m, d, g))
    for t, m, d, g in extra_jobs(tier):
        jobs.append((t, m, d, g))
    return jobs


def extra_jobs(tier):
    """quick: the length-4 words that start with Activate, for the three key kinds with every
    mask bit (use - state change - use again needs four symbols)."""
    if tier != "quick":
        return []
    return [(t, "all", 4, ["Activate"]) for t in ("SymmetricKey", "PrivateKey", "PublicKey")]


def expected_sequences(tier):
    base = sum(sum(len(ALPHABET) ** k for k in range(1, d + 1)) for _, _, d in plan(tier))
    # an extra job enumerates its first symbol's words of length 1..d (prefixes again)
    extra = sum(len(g) * sum(len(ALPHABET) ** k for k in range(0, d)) for _, _, d, g in extra_jobs(tier))
    return base + extra


# ---------------------------------------------------------------- part (ii): histories
H_OPS = (["Activate"] * 4 + ["Revoke:" + c for c in REASONS] + ["Revoke:KEY_COMPROMISE"]
         + ["Destroy"] * 2
         + ["Encrypt", "Decrypt", "Sign", "SignatureVerify", "MAC", "DeriveKey", "GetWrapped"] * 2)
NOISE = ["Noise:Get", "Noise:GetAttributes", "Noise:Locate", "Noise:ModifyState", "Noise:SetState20"]
FITTING = {"SymmetricKey": ["Encrypt", "Decrypt", "GetWrapped", "MAC", "DeriveKey"],
           "PrivateKey": ["Sign", "MAC", "DeriveKey"], "PublicKey": ["SignatureVerify", "MAC", "DeriveKey"]}


def gen_mask():
    bits = [BIT[b] for b in USE_BITS]
    return st.one_of(
        st.sampled_from([0, ALL, ALL, ALL]),
        st.sampled_from(bits),
        st.sampled_from([ALL & ~b for b in bits]),
        st.lists(st.sampled_from(bits), min_size=2, max_size=6, unique=True).map(sum),
        st.integers(0, ALL))


@st.composite
def gen_history(draw):
    steps = []
    n = draw(st.integers(6, 40))
    nobj = 0
    last = 0
    kinds = []          # object type per object index (derived keys are not tracked: indices wrap)
    for _ in range(n):
        kind = draw(st.sampled_from(["new"] * 3 + ["op"] * 20 + ["restart"] * 2 + ["noise"] * 2
                                    + ["batch"] * 5)) if nobj else "new"
        if kind == "new":
            how = draw(st.sampled_from(["register"] * 6 + ["create", "create", "keypair", "keypair"]))
            if how == "register":
                steps.append({"do": "register", "mask": draw(gen_mask()), "otype": draw(st.sampled_from(
                    ["SymmetricKey"] * 3 + ["PrivateKey", "PublicKey"] * 2 + TYPES))})
                kinds.append(steps[-1]["otype"])
                nobj += 1
            elif how == "create":
                steps.append({"do": "create", "mask": draw(gen_mask()),
                              "len": draw(st.sampled_from([128, 192, 256]))})
                kinds.append("SymmetricKey")
                nobj += 1
            else:
                steps.append({"do": "keypair", "mp": draw(gen_mask()), "mu": draw(gen_mask())})
                if draw(st.booleans()):
                    # a mask in the common template too; one key in three inherits it
                    steps[-1]["mc"] = draw(gen_mask())
                    for k in ("mp", "mu"):
                        if draw(st.integers(0, 2)) == 0:
                            steps[-1][k] = None
                kinds.extend(["PrivateKey", "PublicKey"])
                nobj += 2
            last = nobj - 1
        elif kind == "restart":
            steps.append({"do": "restart"})
        elif kind == "batch":
            # 2-4 items in one request: state changes and uses of one or two objects, often
            # with an item that fails (an unknown identifier) before, between or after them
            items = []
            for _ in range(draw(st.integers(1, 3))):
                obj = draw(st.sampled_from([last, last, draw(st.integers(0, nobj - 1))]))
                fit = FITTING.get(kinds[obj], ["MAC", "DeriveKey"])
                op = draw(st.sampled_from(fit + ["Activate"] * 3 + ["Revoke:CESSATION_OF_OPERATION",
                                                                   "Revoke:KEY_COMPROMISE", "Destroy"]))
                items.append({"op": op, "obj": obj})
            if draw(st.integers(0, 3)) != 0:
                items.insert(draw(st.integers(0, len(items))), {"op": "Fail"})
            steps.append({"do": "batch", "items": items, "cont": draw(st.booleans())})
        else:
            obj = draw(st.sampled_from([last, last, last, draw(st.integers(0, nobj - 1))]))
            last = obj
            fit = FITTING.get(kinds[obj], ["MAC", "DeriveKey"])
            if kind == "noise":
                op = draw(st.sampled_from(NOISE))
            elif draw(st.integers(0, 2)) == 0:
                op = draw(st.sampled_from(fit + ["Activate"]))
            else:
                op = draw(st.sampled_from(H_OPS))
            s = {"do": "op", "op": op, "obj": obj}
            if op in ("DeriveKey", "GetWrapped") and draw(st.booleans()):
                s["aux"] = draw(st.integers(0, nobj - 1))
            if draw(st.integers(0, 3)) == 0:
                s["var"] = 1
            if op == "SignatureVerify" and draw(st.booleans()):
                s["var"] = draw(st.sampled_from([2, 3]))
            steps.append(s)
    return {"kind": "hist", "steps": steps}


def run_history(spec):
    """(buckets, nontrivial, classes, stats)."""
    w = World()
    buckets = []
    classes = set()
    stats = {}
    try:
        t, b = w.register("SymmetricKey", ALL, "target")
        w.target = t
        buckets.extend(b)
        for k, s in enumerate(spec["steps"]):
            do = s.get("do")
            if do in ("register", "create", "keypair"):
                if do == "register":
                    _, b = w.register(s["otype"], s["mask"], "h%d" % k)
                elif do == "create":
                    _, b = w.create(s["mask"], s.get("len", 128))
                else:
                    _, _, b = w.keypair(s["mp"], s["mu"], s.get("mc"))
                buckets.extend(b)
                buckets.extend(w.passive(do.capitalize()))
                continue
            if do == "restart":
                w.srv.restart()
                buckets.extend(w.passive("Restart", full=True))
                classes.add("h:restart")
                continue
            if do == "batch" and len(w.objs) >= 2:
                n = len(w.objs) - 1
                ops = []
                for it in s["items"]:
                    if it["op"] == "Fail":
                        ops.append(("Fail",))
                    else:
                        ops.append((it["op"], 1 + it["obj"] % n, None, it.get("var", 0)))
                pre_changes = dict((i, w.objs[i]["changes"]) for i in range(len(w.objs)))
                res = w.batch_step(ops, bool(s.get("cont")))
                buckets.extend(res["buckets"])
                classes.update(res["classes"])
                for i in res.get("touched", []):
                    if pre_changes.get(i, 0) > 0 or w.objs[i]["changes"] > 1:
                        w.objs[i]["nt"] = True
                continue
            if do != "op" or len(w.objs) < 2:
                continue
            n = len(w.objs) - 1                      # index 0 is the dedicated target
            i = 1 + s["obj"] % n
            aux = None if s.get("aux") is None else 1 + s["aux"] % n
            op = s["op"]
            o = w.objs[i]
            had_change = o["changes"] > 0
            res = w.step(op, i, aux, s.get("var", 0))
            buckets.extend(res["buckets"])
            if had_change and (op in USES or res["changed"]):
                o["nt"] = True
            classes.add("h:" + res["cls"])
            if res["use_ok"]:
                stats["ii_steps_successful_use:" + op] = stats.get("ii_steps_successful_use:" + op, 0) + 1
            if res["changed"]:
                stats["ii_steps_changing_state"] = stats.get("ii_steps_changing_state", 0) + 1
        buckets.extend(w.passive("End", full=True))
        nt = any(o["nt"] for o in w.objs)
    finally:
        w.close()
    return _dedup(buckets), nt, sorted(classes), stats


N_HIST_SHARDS = 16


def history_worker(n, seed):
    col = core.Collector(PID)

    def one(spec):
        b, nt, cl, stats = run_history(spec)
        col.record(spec, nontrivial=nt, classes=["hist"] + cl, buckets=b)
        for k, v in stats.items():
            col.bump(k, v)
        col.bump("ii_histories")
        col.bump("ii_steps", len(spec["steps"]))

    core.draw_examples(gen_history(), n, seed, one)
    return col


# ---------------------------------------------------------------- entry points
def replay(spec):
    if spec.get("kind") == "hist" or "steps" in spec:
        return run_history(spec)[0]
    return run_seq(spec)[0]


def run(ctx):
    F.rsa_pair()                              # generated once in the parent, inherited by forks
    F.obj_spec("Certificate")
    dicts = core.run_sharded("vlib.props.c04", "trie_worker", trie_jobs(ctx.tier))
    nh = ctx.n(960, 12000)
    dicts += core.run_sharded("vlib.props.c04", "history_worker",
                              [(nh // N_HIST_SHARDS, core.derive_seed(ctx.seed, "c04-hist", i))
                               for i in range(N_HIST_SHARDS)])
    col = core.merged(PID, dicts)
    pl = plan(ctx.tier)
    depths = sorted(set(d for _, _, d in pl))
    col.extra["exhaustive"] = True
    col.extra["exhaustive_part"] = (
        "part (i) only: itertools.product of the 13-symbol alphabet, every sequence of length "
        "1..depth for each (object type, usage mask) cell listed under i_cells_by_depth (%s); "
        "part (ii) (class 'hist', %d Hypothesis histories) is random, not exhaustive" % (
            ", ".join("%d cells to depth %d" % (sum(1 for c in pl if c[2] == d), d) for d in depths),
            nh))
    col.extra["i_cells_by_depth"] = {str(d): ["%s/%s" % (t, m) for t, m, dd in pl if dd == d]
                                     for d in depths}
    expect = expected_sequences(ctx.tier)
    got = sum(v for k, v in col.classes.items() if k.startswith("len:"))
    col.extra["i_sequences_expected"] = expect
    col.extra["i_sequences_enumerated"] = got
    if got != expect:
        raise core.HarnessError("exhaustive part incomplete: %d of %d sequences" % (got, expect))
    return col
