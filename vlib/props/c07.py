"""C07 - unique identifiers are never reused; a destroyed identifier stays dead."""
import os

from hypothesis import strategies as st

from vlib import core, crash, harness as H, hist
from vlib import fixtures as F

PID = "C07"
LEVEL = "exploration"
RULE = ("Hypothesis-generated histories on an initially empty store by 3 clients: Create / "
        "CreateKeyPair / Register (7 types) / DeriveKey; Destroy of the newest, oldest or a drawn "
        "object; clean restart (new engine, same file); kill-restart (the step runs in a forked child "
        "that dies at a drawn SQL-event index, then a new engine opens the file); probes "
        "(Get, GetAttributes, GetAttributeList, Activate, Revoke, Destroy, Locate by identifier, MAC) "
        "on dead identifiers by every client. 'destroy the newest, then create' and 'restart, then "
        "create' are explicit generator choices. Oracle: harness-kept set of every identifier ever "
        "returned or observed; non-trivial = a create after a destroy of the newest object, or after "
        "a (kill-)restart; distinct by spec hash")
ASSUMPTIONS = ["an identifier handed out by a killed (unacknowledged) but committed creation counts "
               "as used: the survivor is found by reading the raw table after the restart",
               "an identifier consumed by a rolled-back creation that nobody ever saw may be reused",
               "a probe on a dead identifier must fail with the not-found text; reason Item Not Found "
               "or the documented masked Permission Denied are both accepted"]

USERS = ["alice", "bob", "carol"]
CREATE_KINDS = ["Create", "CreateKeyPair", "DeriveKey"] + ["Register-" + t for t in H.OBJECT_TYPES]
PROBE_OPS = ["Get", "GetAttributes", "GetAttributeList", "Activate", "Revoke", "Destroy", "Locate", "MAC"]


@st.composite
def gen_history(draw):
    steps = []
    n = draw(st.integers(4, 30))
    live = 0
    dead = 0
    for _ in range(n):
        pool = ["create", "create", "create"]
        if live:
            pool += ["destroy-newest", "destroy-newest", "destroy-oldest", "destroy-any", "restart",
                     "kill-create", "kill-destroy"]
        if dead:
            pool += ["probe", "probe"]
        k = draw(st.sampled_from(pool))
        who = draw(st.sampled_from(USERS))
        if k == "create":
            stp = {"k": "create", "kind": draw(st.sampled_from(CREATE_KINDS)), "who": who,
                   "names": draw(st.sampled_from([0, 0, 1, 1, 2, 3]))}
            if draw(st.integers(0, 3)) == 0:
                stp["pol"] = "open"         # a shared object: anyone may do anything to it
            if dead and draw(st.integers(0, 4)) == 0:
                # a creating request whose template names an identifier of the client's choosing
                # (a dead one, a live one, or a never-used one): it may be refused, but if it
                # succeeds the identifier handed out must still be a fresh one
                stp["want_uid"] = draw(st.sampled_from(["dead", "dead", "live", "fresh"]))
                stp["n"] = draw(st.integers(0, 50))
            steps.append(stp)
            live += 1
        elif k.startswith("destroy"):
            steps.append({"k": "destroy", "which": k.split("-")[1], "n": draw(st.integers(0, 50)),
                          "batch": draw(st.sampled_from([None, None, "then-fail", "then-fail-continue", "then-ok", "after-ok",
                                                         "then-probe", "then-probe", "read-then-probe",
                                                         "wrap-then-probe", "wrap-then-probe"])),
                          "paged": draw(st.booleans()),
                          "alias": draw(st.sampled_from([None, None, "0%s", " %s", "%s.0", "+%s"])),
                          # the life the object had before: still Pre-Active, used and retired, or
                          # compromised (with or without having been active)
                          "life": draw(st.sampled_from([None, None, "activate-cease", "compromise",
                                                        "activate-compromise"])),
                          # who destroys it: the owner, or (shared objects only) somebody else
                          "by": draw(st.sampled_from(["owner", "owner", "other"]))})
            live -= 1
            dead += 1
            if draw(st.booleans()):
                steps.append({"k": "create", "kind": draw(st.sampled_from(CREATE_KINDS)), "who": who})
                live += 1
        elif k == "restart":
            steps.append({"k": "restart"})
            steps.append({"k": "create", "kind": draw(st.sampled_from(CREATE_KINDS)), "who": who})
            live += 1
        elif k == "kill-create":
            steps.append({"k": "kill", "step": {"k": "create", "kind": draw(st.sampled_from(CREATE_KINDS)), "who": who},
                          "at": draw(st.integers(0, 40))})
            steps.append({"k": "create", "kind": draw(st.sampled_from(CREATE_KINDS)), "who": who})
            live += 1
        elif k == "kill-destroy":
            steps.append({"k": "kill", "step": {"k": "destroy", "which": draw(st.sampled_from(["newest", "oldest", "any"])),
                                                 "n": draw(st.integers(0, 50))},
                          "at": draw(st.integers(0, 30))})
            steps.append({"k": "create", "kind": draw(st.sampled_from(CREATE_KINDS)), "who": who})
            live += 1
        else:
            steps.append({"k": "probe", "n": draw(st.integers(0, 50)), "op": draw(st.sampled_from(PROBE_OPS)),
                          "who": who})
    steps.append({"k": "probe-all"})
    return {"steps": steps}


def _policies():
    """Built-in policies plus 'open': every operation on every object type allowed to everyone."""
    from kmip.core import enums
    p = H.builtin_policies()
    p["open"] = {"preset": {H.OT[t]: {o: enums.Policy.ALLOW_ALL for o in enums.Operation}
                            for t in H.OBJECT_TYPES}}
    return p


def _create_item(kind, live, who=None):
    if kind == "Create":
        return F.create_item()
    if kind == "CreateKeyPair":
        return F.keypair_item()
    if kind == "DeriveKey":
        base = [o for o in live if o["otype"] == "SymmetricKey" and o["derivable"] and o["owner"] == who]
        if not base:
            return F.create_item()
        return {"op": "DeriveKey", "uids": [base[-1]["uid"]], "method": "PBKDF2",
                "attrs": [["Cryptographic Length", 128], ["Cryptographic Algorithm", "AES"], ["Cryptographic Usage Mask", F.ALL_MASK]],
                "dp": {"params": {"hash": "SHA_256"}, "salt": "0102", "iter": 1}}
    t = kind.split("-", 1)[1]
    return F.register_item(t, label="c7")


def _probe_item(op, uid):
    if op == "Locate":
        return {"op": "Locate", "attrs": [["Unique Identifier", uid]]}
    if op == "Revoke":
        return {"op": "Revoke", "uid": uid, "code": "KEY_COMPROMISE"}
    if op == "MAC":
        return {"op": "MAC", "uid": uid, "params": {"alg": "HMAC_SHA256"}, "data": "00"}
    return {"op": op, "uid": uid}


class Run(object):
    def __init__(self):
        H.CLOCK.now = 1_700_002_000
        self.srv = H.Server(policies=_policies())
        self.ever = set()
        self.live = []       # {uid, owner, otype, derivable}
        self.dead = []
        self.buckets = []
        self.classes = []
        self.nontrivial = False
        self.after_event = None     # "destroy-newest" | "restart" | "kill"

    def bucket(self, key, detail):
        self.buckets.append((key, detail))

    def table_uids(self):
        d = self.srv.raw_dump()["managed_objects"]
        ui, oi, ti = d["cols"].index("uid"), d["cols"].index("owner"), d["cols"].index("object_type")
        return {str(r[ui]): (r[oi], r[ti]) for r in d["rows"]}

    def note_new(self, uids, who, item):
        for u in uids:
            if u in self.ever:
                self.bucket("C07|identifier-reused|" + (self.after_event or "plain"),
                            "identifier %s returned again (ever=%s dead=%s)" % (u, sorted(self.ever, key=int), [d["uid"] for d in self.dead]))
            self.ever.add(u)
        if self.after_event:
            self.nontrivial = True
            self.classes.append("create-after-" + self.after_event)
        self.after_event = None

    def do_create(self, step, via_kill=None):
        item = _create_item(step["kind"], self.live, step["who"])
        self.seq = getattr(self, "seq", 0) + 1
        extra = [["Name", "c7-%d-%d" % (self.seq, j), j] for j in range(step.get("names", 0))]
        chosen = None
        if step.get("want_uid"):
            pool = {"dead": [d["uid"] for d in self.dead], "live": [o["uid"] for o in self.live],
                    "fresh": [str(900000 + self.seq)]}[step["want_uid"]]
            if pool:
                chosen = pool[step.get("n", 0) % len(pool)]
                extra.append(["Unique Identifier", chosen])
        if step.get("pol"):
            extra.append(["Operation Policy Name", step["pol"]])
        if extra:
            key = "common" if item["op"] == "CreateKeyPair" else "attrs"
            item = dict(item)
            item[key] = list(item.get(key) or []) + extra
        cli = H.Client(self.srv, step["who"])
        r = cli.one(item)
        if chosen is not None:
            self.classes.append("create-with-chosen-identifier:%s:%s" % (step["want_uid"], r["status"]))
            if r["status"] != "SUCCESS":
                return          # refusing a client-chosen identifier is fine
        if r["status"] != "SUCCESS":
            ie = cli.internal
            if ie:
                self.bucket(core.exc_bucket(PID, "create-failed", ie[0]), "%s: %r" % (step["kind"], ie[0]))
            else:
                self.bucket("C07|create-failed|%s|%s" % (step["kind"].split("-")[0], r["reason"]), repr(r))
            return
        uids = hist.created_uids([r])
        self.note_new(uids, step["who"], item)
        for u in uids:
            self.live.append({"uid": u, "owner": step["who"], "pol": step.get("pol"),
                              "otype": "SymmetricKey" if item["op"] in ("Create", "DeriveKey") or step["kind"] == "Register-SymmetricKey" else step["kind"],
                              "derivable": True})

    def pick(self, which, n):
        if not self.live:
            return None
        if which == "newest":
            return max(self.live, key=lambda o: int(o["uid"]))
        if which == "oldest":
            return min(self.live, key=lambda o: int(o["uid"]))
        return self.live[n % len(self.live)]

    def do_destroy(self, step):
        o = self.pick(step["which"], step.get("n", 0))
        if o is None:
            return
        newest = o is max(self.live, key=lambda x: int(x["uid"]))
        others_before = self.others_snapshot(o["uid"])
        who = o["owner"]
        if step.get("by") == "other" and o.get("pol") == "open":
            who = next(u for u in USERS if u != o["owner"])
            self.classes.append("destroy-by-non-owner")
        cli = H.Client(self.srv, who)
        mode = step.get("batch")
        d = {"op": "Destroy", "uid": o["uid"]}
        life = step.get("life")
        if life and mode != "wrap-then-probe":
            own = H.Client(self.srv, o["owner"])
            if life.startswith("activate"):
                own.one({"op": "Activate", "uid": o["uid"]})
            own.one({"op": "Revoke", "uid": o["uid"],
                     "code": "KEY_COMPROMISE" if life.endswith("compromise") else "CESSATION_OF_OPERATION"})
            self.classes.append("destroy-after-life:" + life)
        alias = step["alias"] % o["uid"] if step.get("alias") and o["uid"].isdigit() else None
        if step.get("paged"):
            # the owner pages through Locate before the Destroy ...
            cli.one({"op": "Locate", "max": 1})
            cli.one({"op": "Locate", "max": 2, "attrs": [["Object Type", "SymmetricKey"]]})
            self.classes.append("locate-pages-around-destroy")
        if alias is not None:
            # the object is read under another spelling of its identifier while it is alive ...
            cli.one({"op": "Get", "uid": alias})
            self.classes.append("read-under-alias-before-destroy")
        if mode is None:
            r = cli.one(d)
        else:
            # the Destroy travels in a batch: followed by a failing / succeeding item, or preceded by one
            bad = {"op": "Get", "uid": "999999"}
            good = {"op": "Query"}
            # the identifier is dead as soon as the Destroy item has succeeded: later items of the
            # SAME batch that name it (or rely on the ID placeholder after a read of it) fail too
            probes = [{"op": "Get", "uid": o["uid"]}, {"op": "GetAttributes", "uid": o["uid"]},
                      {"op": "GetAttributeList", "uid": o["uid"]}, {"op": "Activate", "uid": o["uid"]},
                      {"op": "Locate"}]
            # the object as the WRAPPING key of a Get of another object, before and after its
            # own Destroy in one batch (made usable first: Activate, and ended: Revoke)
            other = next((x for x in self.live if x is not o and x["owner"] == o["owner"]), o)
            wget = {"op": "Get", "uid": other["uid"],
                    "wrap": {"eki": {"uid": o["uid"], "params": {"mode": "NIST_KEY_WRAP"}}, "enc": "NO_ENCODING"}}
            wrapseq = [{"op": "Activate", "uid": o["uid"]}, dict(wget),
                       {"op": "Revoke", "uid": o["uid"], "code": "CESSATION_OF_OPERATION"}, d, dict(wget)]
            items = {"then-fail": [d, bad], "then-fail-continue": [d, bad, good], "then-ok": [d, good],
                     "after-ok": [good, d], "then-probe": [d] + probes,
                     "read-then-probe": [{"op": "Get", "uid": o["uid"]}, d] + probes,
                     "wrap-then-probe": wrapseq + probes}[mode]
            cont = mode in ("then-fail-continue", "then-probe", "read-then-probe", "wrap-then-probe")
            rr = cli.request(items, **({"cont": "CONTINUE"} if cont else {}))
            its = rr["items"] or []
            r = next((i for i in its if i["op"] == "Destroy"), {"status": "MISSING", "reason": None})
            self.classes.append("destroy-in-batch:" + mode)
            if mode.endswith("probe") and r["status"] == "SUCCESS":
                k0 = next(k for k, i in enumerate(its) if i["op"] == "Destroy")
                for it in its[k0 + 1:]:
                    if it["op"] == "Locate":
                        if it["status"] == "SUCCESS" and o["uid"] in (it["payload"] or {}).get("uids", []):
                            self.bucket("C07|dead-identifier-listed-by-locate|same-batch",
                                        "Locate in the batch that destroyed %s still lists it" % o["uid"])
                    elif it["status"] == "SUCCESS" and it["op"] == "Get" and mode == "wrap-then-probe" \
                            and str((it.get("payload") or {}).get("uid")) == str(other["uid"]) and other is not o:
                        self.bucket("C07|dead-identifier-used-as-wrapping-key|same-batch",
                                    "Get of %s wrapped with %s succeeded after the Destroy item of %s in "
                                    "the same batch" % (other["uid"], o["uid"], o["uid"]))
                    elif it["status"] == "SUCCESS":
                        self.bucket("C07|operation-on-dead-identifier-succeeded|%s|same-batch" % it["op"],
                                    "%s of %s succeeded after the Destroy item of the same batch: %r"
                                    % (it["op"], o["uid"], it.get("payload")))
        if r["status"] != "SUCCESS":
            self.bucket("C07|destroy-failed|%s" % r["reason"], repr(r))
            return
        self.live.remove(o)
        self.dead.append(o)
        if step.get("paged"):
            # ... and goes on with the next pages afterwards: the dead identifier is on none
            for flt in ([], [["Object Type", "SymmetricKey"]]):
                for off in (1, 2, 3, 0):
                    pg = cli.one({"op": "Locate", "offset": off, "max": 50, "attrs": flt})
                    if pg["status"] == "SUCCESS" and o["uid"] in (pg["payload"] or {}).get("uids", []):
                        self.bucket("C07|dead-identifier-listed-by-locate|later-page",
                                    "Locate offset=%d max=50 %r after Destroy of %s lists it" % (off, flt, o["uid"]))
        if alias is not None:
            # ... and is dead under that spelling too afterwards
            for op in ("Get", "GetAttributes"):
                ra = cli.one(_probe_item(op, alias))
                if ra["status"] == "SUCCESS":
                    self.bucket("C07|operation-on-dead-identifier-succeeded|%s|spelling" % op,
                                "uid %r (dead identifier %s): %r" % (alias, o["uid"], ra))
                elif ra["reason"] not in ("ITEM_NOT_FOUND", "PERMISSION_DENIED"):
                    self.bucket("C07|operation-on-dead-identifier-not-answered-as-not-found|%s|%s|spelling"
                                % (op, ra["reason"]), "uid %r: %r" % (alias, ra))
        others_after = self.others_snapshot(o["uid"])
        if others_after != others_before:
            diff = [t for t in others_after if others_after[t] != others_before.get(t)]
            self.bucket("C07|destroy-affected-other-objects|" + ",".join(sorted(diff)),
                        "destroyed %s; tables that changed for OTHER objects: %s" % (o["uid"], diff))
        if newest:
            self.after_event = "destroy-newest"

    def others_snapshot(self, uid):
        """Every row of every table that does not belong to `uid` (rows are attributed through
        their uid / mo_uid column; Destroy by design leaves the destroyed object's own per-class
        and attribute rows behind, those are not looked at)."""
        d = self.srv.raw_dump()
        out = {}
        for t, tab in d.items():
            cols = tab["cols"]
            key = "uid" if "uid" in cols else ("mo_uid" if "mo_uid" in cols else None)
            if key is None:
                out[t] = tab["rows"]
            else:
                ki = cols.index(key)
                out[t] = [r for r in tab["rows"] if str(r[ki]) != str(uid)]
        return out

    def do_restart(self):
        self.srv.restart()
        self.after_event = "restart"
        self.check_live()

    def do_kill(self, step):
        inner = step["step"]
        target = None
        if inner["k"] == "destroy":
            target = self.pick(inner["which"], inner.get("n", 0))
            if target is None:
                return
            item = {"op": "Destroy", "uid": target["uid"]}
            who = target["owner"]
        else:
            item = _create_item(inner["kind"], self.live, inner["who"])
            who = inner["who"]
        before = set(self.table_uids())
        self.srv.stop()
        req = {"v": [1, 2], "items": [item]}

        def send(server):
            data = H.encode_request(req)
            r = server.process(data, (who, None))
            return {"items": H.response_plain(r["resp"], (1, 2)) if r["resp"] else None}
        now = H.CLOCK.now + 1
        H.CLOCK.now = now
        _, _, info = crash.crashed_run(self.srv.db, self.srv.policies, send, step["at"], inplace=True)
        H.CLOCK.now = now
        try:
            self.srv.start()
        except Exception as e:
            self.bucket(core.exc_bucket(PID, "cannot-open-after-kill", e), repr(e))
            raise
        self.classes.append("kill:%s:%s" % (inner["k"], "acked" if info["acked"] else "died"))
        after = self.table_uids()
        # reconcile the model with what survived
        for u in sorted(set(after) - before, key=int):
            if u in self.ever:
                self.bucket("C07|identifier-reused|kill", "identifier %s re-appeared after a killed creation" % u)
            self.ever.add(u)
            self.live.append({"uid": u, "owner": after[u][0], "otype": "?", "derivable": False})
        for u in before - set(after):
            o = next((x for x in self.live if x["uid"] == u), None)
            if o is not None:
                self.live.remove(o)
                self.dead.append(o)
                if target is not None and u != target["uid"]:
                    self.bucket("C07|kill|unrelated-object-vanished", u)
        if info["acked"] and info["ack"] and info["ack"].get("items"):
            for u in hist.created_uids(info["ack"]["items"]):
                if u not in after:
                    self.bucket("C07|kill|acknowledged-object-missing", u)
        self.after_event = "kill"
        self.check_live()

    def check_live(self):
        tab = self.table_uids()
        for o in self.live:
            if o["uid"] not in tab:
                self.bucket("C07|live-object-missing-after-restart", o["uid"])

    def do_probe(self, step):
        if not self.dead:
            return
        o = self.dead[step["n"] % len(self.dead)]
        self.probe(o, step["op"], step["who"])

    def probe(self, o, op, who):
        uid = o["uid"]
        if uid in [x["uid"] for x in self.live]:
            return      # identifier legitimately... cannot happen unless reuse was already reported
        cli = H.Client(self.srv, who)
        r = cli.one(_probe_item(op, uid))
        if op == "Locate":
            if r["status"] == "SUCCESS" and uid in r["payload"]["uids"]:
                self.bucket("C07|dead-identifier-listed-by-locate", "uid %s as %s" % (uid, who))
            # an unfiltered Locate too
            r2 = cli.one({"op": "Locate"})
            if r2["status"] == "SUCCESS" and uid in r2["payload"]["uids"]:
                self.bucket("C07|dead-identifier-listed-by-locate", "uid %s as %s (no filter)" % (uid, who))
            return
        ok_text = "Could not locate object: %s" % uid
        if r["status"] == "SUCCESS":
            self.bucket("C07|operation-on-dead-identifier-succeeded|" + op, "uid %s as %s: %r" % (uid, who, r))
        elif r["message"] != ok_text or r["reason"] not in ("ITEM_NOT_FOUND", "PERMISSION_DENIED"):
            self.bucket("C07|operation-on-dead-identifier-not-answered-as-not-found|%s|%s" % (op, r["reason"]),
                        "uid %s as %s: %r" % (uid, who, r))
        # other spellings the numeric key column takes for the same identifier ('07', ' 7', '7.0',
        # '+7'): the object is just as dead under them
        if op in ("Get", "GetAttributes") and uid.isdigit():
            for sp in ("0%s", " %s", "%s.0", "+%s"):
                alias = sp % uid
                ra = cli.one(_probe_item(op, alias))
                if ra["status"] == "SUCCESS":
                    self.bucket("C07|operation-on-dead-identifier-succeeded|%s|spelling" % op,
                                "uid %r (dead identifier %s) as %s: %r" % (alias, uid, who, ra))
                elif ra["reason"] not in ("ITEM_NOT_FOUND", "PERMISSION_DENIED"):
                    self.bucket("C07|operation-on-dead-identifier-not-answered-as-not-found|%s|%s|spelling"
                                % (op, ra["reason"]), "uid %r as %s: %r" % (alias, who, ra))

    def probe_all(self):
        for o in self.dead[-6:]:
            for who in USERS:
                for op in ("Get", "GetAttributes", "Locate", "Destroy"):
                    self.probe(o, op, who)
        # every live object is still readable by its owner
        for o in self.live[-6:]:
            r = H.Client(self.srv, o["owner"]).one({"op": "GetAttributes", "uid": o["uid"]})
            if r["status"] != "SUCCESS":
                self.bucket("C07|live-object-unreadable|" + str(r["reason"]), repr(r))

    def close(self):
        self.srv.close()


def run_history(spec):
    run = Run()
    try:
        for step in spec["steps"]:
            H.CLOCK.tick()
            k = step["k"]
            if k == "create":
                run.do_create(step)
            elif k == "destroy":
                run.do_destroy(step)
            elif k == "restart":
                run.do_restart()
            elif k == "kill":
                run.do_kill(step)
            elif k == "probe":
                run.do_probe(step)
            elif k == "probe-all":
                run.probe_all()
    finally:
        run.close()
    seen = {}
    for key, d in run.buckets:
        seen.setdefault(key, d)
    return list(seen.items()), run.nontrivial, sorted(set(run.classes))


def replay(spec):
    return run_history(spec)[0]


def worker(n, seed):
    col = core.Collector(PID)

    def one(spec):
        b, nt, cl = run_history(spec)
        col.record(spec, nontrivial=nt, classes=cl or ["plain"], buckets=b)

    core.draw_examples(gen_history(), n, seed, one)
    return col


def run(ctx):
    n = core.NCPU
    total = ctx.n(480, 9600)
    dicts = core.run_sharded("vlib.props.c07", "worker",
                             [(total // n, core.derive_seed(ctx.seed, "c07", i)) for i in range(n)])
    return core.merged(PID, dicts)
