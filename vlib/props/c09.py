"""C09 - crash consistency: acknowledged operations survive, interrupted ones are all-or-nothing."""
import copy
import shutil

from hypothesis import strategies as st

from vlib import core, crash, harness as H, hist, store
from vlib import fixtures as F

PID = "C09"
LEVEL = "fault_enumeration"
RULE = ("fault = process death (os._exit in a forked child) at EVERY SQLAlchemy event index of the "
        "request: before and after each SQL statement, at commit (before the DBAPI commit), after "
        "commit, and after the response was produced - enumerated completely for each "
        "state-changing operation variant (Create, CreateKeyPair, Register of the 7 types with "
        "names/groups/app-info, DeriveKey, Activate, Revoke, Destroy, Set/Modify/DeleteAttribute in "
        "1.x and 2.0 forms, two- and three-item batches) on a standard store; AND SIGKILL on entering "
        "every k-th write-class system call on the database / journal files during the request "
        "(strace attached to the forked child; 12 variants quick, all thorough), which enumerates "
        "the points inside SQLite's commit; the same two enumerations for the FIRST start of a server "
        "on a database file that does not exist yet (schema creation) followed by a Create; after "
        "every death the reopened store must also accept, return and list a new key; thorough adds "
        "Hypothesis workloads SIGKILLed by the parent at drawn instants. After the death a fresh "
        "engine is opened on the surviving file. non-trivial = crash point strictly between the "
        "first write statement and the last commit of the request; distinct = (variant, event index)")
ASSUMPTIONS = ["process death is modelled by os._exit / SIGKILL of the process owning the SQLite "
               "connection (no power loss, no torn pages)",
               "the set of legal post-crash stores is {state before, state after each completed "
               "batch item}, computed by uncrashed runs of the same request prefix on copies; "
               "generated key material is compared by shape (masked)",
               "crash points inside SQLite's own commit are enumerated at system-call granularity "
               "(strace attaches to the forked child and kills it on entering the k-th "
               "pwrite/fsync/unlink/... on the database files) when ptrace is permitted in the "
               "sandbox, otherwise only sampled (thorough tier SIGKILL); a death inside one "
               "write call (torn page) is not modelled"]

NOW = 1_700_001_000


def variants():
    _, idx = store.standard_template()
    multi = [["Name", "cn1", 0], ["Name", "cn2", 1], ["Object Group", "cg1", 0], ["Object Group", "cg2", 1],
             ["Application Specific Information", {"ns": "a", "data": "1"}, 0],
             ["Application Specific Information", {"ns": "b", "data": "2"}, 1]]
    sk_pre = idx["SymmetricKey/PRE_ACTIVE"]
    V = []
    add = lambda label, items, v=(1, 2), **hdr: V.append(dict({"label": label, "v": list(v), "items": items}, **hdr))
    add("Create", [F.create_item(extra_attrs=multi)])
    add("CreateKeyPair", [dict(F.keypair_item(), common=F.keypair_item()["common"] + [["Name", "kp", 0], ["Object Group", "kg", 0]])])
    for t in H.OBJECT_TYPES:
        add("Register-" + t, [F.register_item(t, label="c9", extra_attrs=multi)])
    add("DeriveKey", [{"op": "DeriveKey", "uids": [idx["SymmetricKey/ACTIVE"]], "method": "PBKDF2",
                       "attrs": [["Cryptographic Length", 128], ["Cryptographic Algorithm", "AES"]] + multi[:2],
                       "dp": {"params": {"hash": "SHA_256"}, "salt": "0102", "iter": 2}}])
    add("Activate", [{"op": "Activate", "uid": sk_pre}])
    add("Revoke-deactivate", [{"op": "Revoke", "uid": idx["SymmetricKey/ACTIVE"], "code": "CESSATION_OF_OPERATION"}])
    add("Revoke-compromise", [{"op": "Revoke", "uid": idx["PrivateKey/ACTIVE"], "code": "KEY_COMPROMISE"}])
    for t in H.OBJECT_TYPES:
        key = "%s/%s" % (t, "PRE_ACTIVE" if t in F.HAS_STATE else "NONE")
        add("Destroy-" + t, [{"op": "Destroy", "uid": idx[key]}])
    add("Destroy-compromised", [{"op": "Destroy", "uid": idx["SymmetricKey/COMPROMISED"]}])
    add("ModifyAttribute-name", [{"op": "ModifyAttribute", "uid": sk_pre, "attr": ["Name", "renamed", 0]}])
    add("ModifyAttribute-group", [{"op": "ModifyAttribute", "uid": sk_pre, "attr": ["Object Group", "g9", 0]}])
    add("ModifyAttribute-asi", [{"op": "ModifyAttribute", "uid": sk_pre, "attr": ["Application Specific Information", {"ns": "z", "data": "9"}, 0]}])
    add("DeleteAttribute-name", [{"op": "DeleteAttribute", "uid": sk_pre, "name": "Name", "index": 0}])
    add("DeleteAttribute-group", [{"op": "DeleteAttribute", "uid": sk_pre, "name": "Object Group", "index": 0}])
    add("DeleteAttribute-asi", [{"op": "DeleteAttribute", "uid": sk_pre, "name": "Application Specific Information", "index": 0}])
    add("SetAttribute-sensitive", [{"op": "SetAttribute", "uid": sk_pre, "new": ["Sensitive", True]}], v=(2, 0))
    add("ModifyAttribute2-name", [{"op": "ModifyAttribute", "uid": sk_pre, "cur": ["Name", "n-SymmetricKey-PRE_ACTIVE"], "new": ["Name", "renamed"]}], v=(2, 0))
    add("DeleteAttribute2-all-groups", [{"op": "DeleteAttribute", "uid": sk_pre, "ref": {"name": "Object Group"}}], v=(2, 0))
    add("Batch-create-activate-destroy", [F.create_item(extra_attrs=multi[:2]), {"op": "Activate", "uid": sk_pre},
                                          {"op": "Destroy", "uid": idx["SecretData/PRE_ACTIVE"]}])
    add("Batch-register-placeholder-delete", [F.register_item("SymmetricKey", label="bp", extra_attrs=multi),
                                              {"op": "DeleteAttribute", "name": "Name", "index": 0}])
    add("Batch-keypair-revoke", [F.keypair_item(), {"op": "Revoke", "uid": idx["PublicKey/ACTIVE"], "code": "KEY_COMPROMISE"}])
    add("Batch-fail-then-create", [{"op": "Get", "uid": "9999"}, F.create_item()], cont="CONTINUE")
    return V


def _req(var, items=None):
    r = {"v": var["v"], "items": items if items is not None else var["items"]}
    if var.get("cont"):
        r["cont"] = var["cont"]
    return r


def _send_fn(var, items=None):
    req = _req(var, items)

    def send(server):
        H.CLOCK.now = NOW
        data = H.encode_request(req)
        r = server.process(data, ("alice", None))
        if r["resp"] is None:
            return {"error": repr(r["error"])}
        return {"items": H.response_plain(r["resp"], tuple(req["v"]))}
    return send


_cal = {}


def calibration(label):
    """Event log of the uncrashed run + the legal post-crash snapshots (S0, after item 1, ...)."""
    if label in _cal:
        return _cal[label]
    db, idx = store.standard_template()
    var = next(v for v in variants() if v["label"] == label)
    n = len(var["items"])
    legal = []
    s0srv = H.Server(template=db)
    base = hist.snapshot(s0srv)
    s0srv.close()
    # full run with the event counter
    log, out, srv = crash.calibrate(db, None, _send_fn(var))
    items = out.get("items") or []
    for j, it in enumerate(items):
        expect_fail = var["label"] == "Batch-fail-then-create" and j == 0
        if (it["status"] == "SUCCESS") == expect_fail:
            raise core.HarnessError("variant %s item %d: unexpected outcome %r" % (label, j, it))
    if len(items) != n:
        raise core.HarnessError("variant %s: %d results for %d items" % (label, len(items), n))
    mask = set(hist.random_value_uids(items))
    full = hist.snapshot(srv, mask)
    srv.close()
    legal.append(hist.snapshot_masked(base, mask))
    for k in range(1, n):
        s = H.Server(template=db)
        sub = [dict(it) for it in var["items"][:k]]
        _send_fn(var, sub)(s)
        legal.append(hist.snapshot(s, mask))
        s.close()
    legal.append(full)
    _cal[label] = {"log": log, "items": items, "mask": sorted(mask), "legal": legal, "var": var}
    return _cal[label]


def _is_write(ev):
    return ev[0] == "before" and ev[1] in ("INSERT", "UPDATE", "DELETE")


def nontrivial_point(log, k):
    writes = [i for i, e in enumerate(log) if _is_write(e)]
    commits = [i for i, e in enumerate(log) if e[0] == "commit"]
    if not writes or not commits:
        return False
    return writes[0] < k <= commits[-1]


def check_survivor(dbpath, cal, info, label):
    """Open a fresh engine on the surviving file and judge it."""
    buckets = []
    try:
        srv = H.Server(db=dbpath)
    except Exception as e:
        return [(core.exc_bucket(PID, "cannot-open-after-crash", e), repr(e))]
    try:
        snap = hist.snapshot(srv, cal["mask"])
        legal = cal["legal"]
        where = next((i for i, s in enumerate(legal) if s == snap), None)
        if where is None:
            near = min(range(len(legal)), key=lambda i: len(hist.diff(legal[i], snap, 50)))
            buckets.append(("C09|partial-state-after-crash|" + label.split("-")[0],
                            "exit=%s acked=%s; closest legal state #%d, diff:\n%s" % (
                                info["exit"], info["acked"], near, "\n".join(hist.diff(legal[near], snap, 12)))))
        elif info["acked"] and snap != legal[-1]:
            # acknowledged request must be fully in effect (unless it reported failures itself)
            ack_items = (info["ack"] or {}).get("items")
            if ack_items == cal["items"]:
                buckets.append(("C09|acknowledged-operation-lost|" + label.split("-")[0],
                                "acked but store is legal state #%d of %d" % (where, len(legal) - 1)))
        # the store can be listed and every object read
        cli = H.Client(srv, "alice")
        r = cli.one({"op": "Locate"})
        if r["status"] != "SUCCESS":
            buckets.append(("C09|cannot-list-after-crash|" + str(r["reason"]), repr(r)))
        else:
            for uid in r["payload"]["uids"]:
                g = cli.one({"op": "Get", "uid": uid})
                a = cli.one({"op": "GetAttributes", "uid": uid})
                for x in (g, a):
                    if x["status"] != "SUCCESS":
                        buckets.append(("C09|object-unreadable-after-crash|%s|%s" % (x["op"], x["reason"]), "uid %s: %r" % (uid, x)))
        # ... and the store is still usable: a new key can be created, read and listed
        c = cli.one(F.create_item(extra_attrs=[["Name", "after-crash", 0]]))
        if c["status"] != "SUCCESS":
            buckets.append(("C09|store-unusable-after-crash|Create|%s" % c["reason"],
                            "Create on the reopened store: %r" % (c,)))
        else:
            g = cli.one({"op": "Get", "uid": c["payload"]["uid"]})
            l = cli.one({"op": "Locate", "attrs": [["Name", "after-crash"]]})
            if g["status"] != "SUCCESS" or l["status"] != "SUCCESS" or \
                    c["payload"]["uid"] not in (l["payload"] or {}).get("uids", []):
                buckets.append(("C09|store-unusable-after-crash|new-object-not-readable",
                                "Get %r / Locate %r" % (g, l)))
        for e in cli.internal:
            buckets.append((core.exc_bucket(PID, "internal-error-after-crash", e), repr(e)))
    finally:
        srv.close()
    return buckets


def run_restart_only(spec):
    """A clean stop and restart on the same file must preserve everything (the degenerate crash)."""
    db, idx = store.standard_template()
    srv = H.Server(template=db)
    try:
        n_rows = len(srv.raw_dump()["managed_objects"]["rows"])
        cli = H.Client(srv, "alice")
        r = cli.one(F.create_item(extra_attrs=[["Name", "survivor"]]))
        if r["status"] != "SUCCESS":
            return [("C09|restart|create-failed-on-reopened-store", repr(r))], True, ["restart-only"]
        before = hist.snapshot(srv)
        for _ in range(spec.get("restarts", 2)):
            srv.restart()
        after = hist.snapshot(srv)
        b = []
        if n_rows < len(idx) - 1:
            b.append(("C09|restart|store-lost-when-engine-opened", "%d rows, expected >= %d" % (n_rows, len(idx) - 1)))
        if before != after:
            b.append(("C09|restart|store-changed-by-clean-restart", "\n".join(hist.diff(before, after))))
        return b, True, ["restart-only"]
    finally:
        srv.close()


def run_point(spec):
    """spec = {"label": variant label, "k": event index or None}"""
    if spec["label"] == "restart-only":
        return run_restart_only(spec)
    db, idx = store.standard_template()
    cal = calibration(spec["label"])
    k = spec["k"]
    dbp, d, info = crash.crashed_run(db, None, _send_fn(cal["var"]), k)
    try:
        if info["ack"] and "child_error" in (info["ack"] or {}):
            raise core.HarnessError("child failed: %r" % (info["ack"],))
        if k is not None and k < len(cal["log"]) and info["exit"] != 17:
            # the child did not reach event k: the event sequence is not reproducible
            return [("C09|harness|event-sequence-not-reproducible", "%r exit=%s" % (spec, info["exit"]))], False, []
        b = check_survivor(dbp, cal, info, spec["label"])
    finally:
        shutil.rmtree(d, ignore_errors=True)
    nt = k is not None and nontrivial_point(cal["log"], k)
    ev = cal["log"][k] if k is not None and k < len(cal["log"]) else ("end", "")
    return b, nt, ["variant:" + spec["label"], "at:%s-%s" % ev]


def run_commit_fault(spec):
    """Fault = the j-th COMMIT of the request (with persist: every COMMIT from the j-th on) fails
    with 'database is locked' (another connection holds the file lock beyond the busy timeout);
    the process stays alive.  What the response
    reports must be what is in effect: items answered SUCCESS are applied, the others are not."""
    import sqlite3
    import sqlalchemy.exc
    from sqlalchemy import event
    db, idx = store.standard_template()
    cal = calibration(spec["label"])
    var = cal["var"]
    srv = H.Server(template=db)
    others = []
    try:
        seen = [0]

        def on_commit(conn):
            k = seen[0]
            seen[0] += 1
            if k == spec["j"] or (spec.get("persist") and k > spec["j"]):
                raise sqlalchemy.exc.OperationalError("COMMIT", {}, sqlite3.OperationalError("database is locked"))
        event.listen(srv.engine._data_store, "commit", on_commit)
        out = _send_fn(var)(srv)
        event.remove(srv.engine._data_store, "commit", on_commit)
        items = out.get("items")
        if items is None:
            # request-level error: nothing may be in effect
            snap = hist.snapshot(srv, cal["mask"])
            b = [] if snap == cal["legal"][0] else [("C09|commit-fault|request-error-but-store-changed", repr(out))]
            return b, True, ["commit-fault", "variant:" + spec["label"]]
        ok = [k for k, it in enumerate(items) if it["status"] == "SUCCESS"]
        mask = set(cal["mask"]) | set(hist.random_value_uids(items))
        snap = hist.snapshot(srv, mask)
        # reference: the items that were answered SUCCESS, run without any fault on a fresh copy
        ref = H.Server(template=db)
        others.append(ref)
        if ok:
            sub = [dict(var["items"][k]) for k in ok]
            if len(sub) > 1:
                for n_, it in enumerate(sub):
                    it.setdefault("bid", "%02x" % (n_ + 1))
            out2 = _send_fn(var, sub)(ref)
            mask |= set(hist.random_value_uids(out2.get("items") or []))
        want = hist.snapshot(ref, mask)
        snap = hist.snapshot(srv, mask)
        b = []
        if snap != want:
            b.append(("C09|commit-fault|reported-result-not-in-effect|" + spec["label"].split("-")[0],
                      "commit #%d failed; items reported %r; diff vs. applying exactly the successful items:\n%s"
                      % (spec["j"], [(i["op"], i["reason"] or "SUCCESS") for i in items],
                         "\n".join(hist.diff(want, snap, 10)))))
        return b, True, ["commit-fault" + ("-persistent" if spec.get("persist") else ""),
                         "variant:" + spec["label"],
                         "commit-fault-acked" if len(ok) == len(items) else "commit-fault-reported-failure"]
    finally:
        srv.close()
        for o in others:
            o.close()


# ---------------------------------------------------------------- death at a system call
SYS_QUICK = ["Create", "CreateKeyPair", "Register-SymmetricKey", "Register-Certificate", "DeriveKey",
             "Activate", "Revoke-compromise", "Destroy-SymmetricKey", "ModifyAttribute-name",
             "DeleteAttribute-group", "SetAttribute-sensitive", "Batch-create-activate-destroy"]
_syscal = {}


def syscall_calibration(label):
    """System calls (on the database file, its journal/WAL files and the directory) of the
    uncrashed request, per call name."""
    if label in _syscal:
        return _syscal[label]
    db, idx = store.standard_template()
    cal = calibration(label)
    dbp, d, info = crash.syscall_run(db, None, _send_fn(cal["var"]), None)
    shutil.rmtree(d, ignore_errors=True)
    if not info["attached"] or not info["acked"]:
        raise core.HarnessError("system-call calibration of %s failed: %r" % (label, info))
    _syscal[label] = {"calls": info["calls"], "order": info["order"]}
    return _syscal[label]


def all_syscall_points(tier):
    labels = SYS_QUICK if tier == "quick" else [v["label"] for v in variants()]
    pts = []
    for label in labels:
        sc = syscall_calibration(label)
        for name in sorted(sc["calls"]):
            for k in range(1, sc["calls"][name] + 1):
                pts.append({"label": label, "fault": "kill-at-syscall", "syscall": name, "k": k})
    return pts


def run_syscall_point(spec):
    db, idx = store.standard_template()
    cal = calibration(spec["label"])
    dbp, d, info = crash.syscall_run(db, None, _send_fn(cal["var"]), (spec["syscall"], spec["k"]))
    for _ in range(2):          # a tracer that did not attach in time (loaded machine): once more
        if info["attached"]:
            break
        shutil.rmtree(d, ignore_errors=True)
        dbp, d, info = crash.syscall_run(db, None, _send_fn(cal["var"]), (spec["syscall"], spec["k"]))
    try:
        if info["ack"] and "child_error" in (info["ack"] or {}):
            raise core.HarnessError("child failed: %r" % (info["ack"],))
        if not info["attached"]:
            raise core.HarnessError("strace could not attach")
        b = check_survivor(dbp, cal, info, spec["label"])
    finally:
        shutil.rmtree(d, ignore_errors=True)
    cl = ["variant:" + spec["label"], "syscall:" + spec["syscall"],
          "syscall-kill:" + ("delivered" if info["killed"] else "call-not-reached")]
    # every such point lies inside the request's write path: between the first write to the
    # journal and the removal of the journal
    return b, info["killed"], cl


def syscall_worker(tier, shard, nshards):
    col = core.Collector(PID)
    for i, spec in enumerate(all_syscall_points(tier)):
        if i % nshards != shard:
            continue
        b, nt, cl = run_syscall_point(spec)
        col.record(spec, nontrivial=nt, classes=cl, buckets=b)
        col.bump("syscall_points")
    return col


# ---------------------------------------------------------------- death during the first start
_startcal = {}


def _startup_send(server):
    H.CLOCK.now = NOW
    req = {"v": [1, 2], "items": [F.create_item(extra_attrs=[["Name", "first", 0]])]}
    r = server.process(H.encode_request(req), ("alice", None))
    if r["resp"] is None:
        return {"error": repr(r["error"])}
    return {"items": H.response_plain(r["resp"], (1, 2))}


def startup_calibration():
    """Event log (and, with strace, system calls) of an uncrashed first start + Create, and the
    two legal survivors: the empty store and the store holding the created key."""
    if _startcal:
        return _startcal
    empty = H.Server()
    legal0 = hist.snapshot(empty)
    empty.close()
    dbp, d, info = crash.startup_run(None, _startup_send)
    if not info["acked"] or not info["events"]:
        raise core.HarnessError("start-up calibration failed: %r" % (info,))
    items = info["ack"]["items"]
    if items[0]["status"] != "SUCCESS":
        raise core.HarnessError("start-up calibration: Create failed: %r" % (items,))
    mask = set(hist.random_value_uids(items))
    s = H.Server(db=dbp)
    legal1 = hist.snapshot(s, mask)
    s.close()
    shutil.rmtree(d, ignore_errors=True)
    var = {"label": "Startup", "v": [1, 2], "items": []}
    _startcal.update({"log": [tuple(e) for e in info["events"]], "items": items, "mask": sorted(mask),
                      "legal": [hist.snapshot_masked(legal0, mask), legal1], "var": var,
                      "calls": None})
    ok, _ = crash.strace_available()
    if ok:
        dbp, d, info = crash.startup_run(None, _startup_send, trace=True)
        shutil.rmtree(d, ignore_errors=True)
        if info["acked"] and info["attached"]:
            _startcal["calls"] = info["calls"]
    return _startcal


def all_startup_points():
    cal = startup_calibration()
    pts = [{"label": "Startup", "fault": "startup", "k": k} for k in range(len(cal["log"]))]
    pts.append({"label": "Startup", "fault": "startup", "k": None})
    for name in sorted(cal["calls"] or {}):
        for k in range(1, cal["calls"][name] + 1):
            pts.append({"label": "Startup", "fault": "startup", "syscall": name, "k": k})
    return pts


def run_startup_point(spec):
    cal = startup_calibration()
    if spec.get("syscall"):
        dbp, d, info = crash.startup_run(None, _startup_send, inject=(spec["syscall"], spec["k"]))
        for _ in range(2):      # a tracer that did not attach in time (loaded machine): once more
            if info["attached"]:
                break
            shutil.rmtree(d, ignore_errors=True)
            dbp, d, info = crash.startup_run(None, _startup_send, inject=(spec["syscall"], spec["k"]))
    else:
        dbp, d, info = crash.startup_run(None, _startup_send, die_at=spec["k"])
    try:
        if isinstance(info["ack"], dict) and "child_error" in info["ack"]:
            raise core.HarnessError("child failed: %r" % (info["ack"],))
        if not info["attached"]:
            raise core.HarnessError("strace could not attach")
        b = check_survivor(dbp, cal, info, "Startup")
    finally:
        shutil.rmtree(d, ignore_errors=True)
    k = spec["k"]
    if spec.get("syscall"):
        cl = ["variant:Startup", "syscall:" + spec["syscall"],
              "syscall-kill:" + ("delivered" if info["killed"] else "call-not-reached")]
        return b, info["killed"], cl
    ev = cal["log"][k] if k is not None and k < len(cal["log"]) else ("end", "")
    # non-trivial: the schema is partly created (after the first CREATE, before the Create request)
    creates = [i for i, e in enumerate(cal["log"]) if e[0] == "before" and e[1].startswith("CREATE")]
    nt = k is not None and bool(creates) and creates[0] < k
    return b, nt, ["variant:Startup", "at:%s-%s" % (ev[0], ev[1].split(" ")[0] if ev[1] else "")]


def startup_worker(shard, nshards):
    col = core.Collector(PID)
    for i, spec in enumerate(all_startup_points()):
        if i % nshards != shard:
            continue
        b, nt, cl = run_startup_point(spec)
        col.record(spec, nontrivial=nt, classes=cl, buckets=b)
        col.bump("startup_points")
    return col


def replay(spec):
    if spec.get("fault") == "startup":
        return run_startup_point(spec)[0]
    if spec.get("fault") == "kill-at-syscall":
        ok, why = crash.strace_available()
        if not ok:
            raise core.HarnessError("cannot replay a system-call crash point here: " + why)
        return run_syscall_point(spec)[0]
    if "sends" in spec:
        return run_kill(spec)[0]
    if spec.get("fault") == "commit-error":
        return run_commit_fault(spec)[0]
    return run_point(spec)[0]


def all_points():
    pts = [{"label": "restart-only", "k": None, "restarts": r} for r in (1, 2, 3)]
    for var in variants():
        cal = calibration(var["label"])
        for k in range(len(cal["log"])):
            pts.append({"label": var["label"], "k": k})
        pts.append({"label": var["label"], "k": None})       # no crash: acked, must be final
    return pts


def all_commit_faults():
    pts = []
    for var in variants():
        cal = calibration(var["label"])
        ncommit = sum(1 for e in cal["log"] if e[0] == "commit")
        for j in range(ncommit):
            pts.append({"label": var["label"], "fault": "commit-error", "j": j})
            # the lock is held for long: every COMMIT from the j-th on fails (a retry does too)
            pts.append({"label": var["label"], "fault": "commit-error", "j": j, "persist": True})
    return pts


def point_worker(shard, nshards):
    col = core.Collector(PID)
    for i, spec in enumerate(all_points()):
        if i % nshards != shard:
            continue
        b, nt, cl = run_point(spec)
        col.record(spec, nontrivial=nt, classes=cl, buckets=b)
    for i, spec in enumerate(all_commit_faults()):
        if i % nshards != shard:
            continue
        b, nt, cl = run_commit_fault(spec)
        col.record(spec, nontrivial=nt, classes=cl, buckets=b)
    return col


# ---------------------------------------------------------------- thorough: SIGKILL at drawn instants
@st.composite
def gen_kill(draw):
    labels = [v["label"] for v in variants() if not v["label"].startswith("Batch")]
    n = draw(st.integers(3, 8))
    seq = [draw(st.sampled_from(labels)) for _ in range(n)]
    return {"sends": seq, "kill_ms": draw(st.integers(0, 120))}


def run_kill(spec):
    db, idx = store.standard_template()
    byl = {v["label"]: v for v in variants()}
    seq = [byl[l] for l in spec["sends"]]
    # model states: uncrashed run, snapshot after every request (masking generated material)
    srv = H.Server(template=db)
    states = []
    mask = set()
    snaps_raw = [hist.snapshot(srv)]
    for var in seq:
        out = _send_fn(var)(srv)
        mask.update(hist.random_value_uids(out.get("items") or []))
        snaps_raw.append(hist.snapshot(srv))
    srv.close()
    states = [hist.snapshot_masked(s, mask) for s in snaps_raw]
    dbp, d, acked, code = crash.killed_workload(db, None, [_send_fn(v) for v in seq], spec["kill_ms"] / 1000.0)
    buckets = []
    try:
        try:
            s2 = H.Server(db=dbp)
        except Exception as e:
            return [(core.exc_bucket(PID, "cannot-open-after-kill", e), repr(e))], True, ["kill"]
        snap = hist.snapshot(s2, mask)
        s2.close()
        legal = [i for i, s in enumerate(states) if s == snap]
        if not legal:
            buckets.append(("C09|partial-state-after-kill", "acked=%d of %d" % (acked, len(seq))))
        elif max(legal) < acked:
            buckets.append(("C09|acknowledged-operation-lost-after-kill", "acked=%d state index=%r" % (acked, legal)))
        elif min(legal) > acked + 1:
            buckets.append(("C09|harness|state-ahead-of-acks", "acked=%d state index=%r" % (acked, legal)))
    finally:
        shutil.rmtree(d, ignore_errors=True)
    return buckets, 0 < acked < len(seq), ["kill", "kill-acked:%d" % min(acked, 9)]


def kill_worker(n, seed):
    col = core.Collector(PID)

    def one(spec):
        b, nt, cl = run_kill(spec)
        col.record(spec, nontrivial=nt, classes=cl, buckets=b)

    core.draw_examples(gen_kill(), n, seed, one)
    return col


def run(ctx):
    store.standard_template()
    b, _, _ = run_restart_only({"label": "restart-only", "restarts": 1})
    if b:
        col = core.Collector(PID)
        for r in (1, 2, 3):
            spec = {"label": "restart-only", "k": None, "restarts": r}
            col.record(spec, nontrivial=True, classes=["restart-only"], buckets=run_restart_only(spec)[0])
        return col
    n = core.NCPU
    dicts = core.run_sharded("vlib.props.c09", "point_worker", [(i, n) for i in range(n)])
    if not ctx.quick:
        dicts += core.run_sharded("vlib.props.c09", "kill_worker",
                                  [(150, core.derive_seed(ctx.seed, "c09", i)) for i in range(n)])
    startup_calibration()
    nstart = len(all_startup_points())
    dicts += core.run_sharded("vlib.props.c09", "startup_worker", [(i, n) for i in range(n)])
    ok, why = crash.strace_available()
    if ok:
        # calibrate in the parent (the forked workers inherit the tables)
        npts = len(all_syscall_points(ctx.tier))
        dicts += core.run_sharded("vlib.props.c09", "syscall_worker",
                                  [(ctx.tier, i, n) for i in range(n)])
    col = core.merged(PID, dicts)
    col.extra["exhaustive"] = True
    col.extra["exhaustive_over"] = ("every SQL-event index of every listed operation variant and of "
                                    "the first start on a new database file (schema creation)")
    if col.extra.get("startup_points") != nstart:
        raise core.HarnessError("start-up points incomplete: %r of %d"
                                % (col.extra.get("startup_points"), nstart))
    if ok:
        if col.extra.get("syscall_points") != npts:
            raise core.HarnessError("system-call points incomplete: %r of %d"
                                    % (col.extra.get("syscall_points"), npts))
        col.extra["syscall_level"] = (
            "every k-th call of every write-class system call (%s) on the database file, its "
            "journal/WAL files and the directory during the request, for the variants %s: %d "
            "crash points, i.e. the points INSIDE SQLite's commit are enumerated as well"
            % (", ".join(crash.SYSCALLS), "of SYS_QUICK" if ctx.quick else "listed above", npts))
        col.extra["syscalls_per_variant"] = dict((l, c["calls"]) for l, c in _syscal.items())
    else:
        col.extra["syscall_level"] = "not run here: " + why
    return col
