"""C01 - TTLV codec round trip for every encodable value and KMIP version.

Forward:  b = enc(x, v) succeeds; y = dec(K, b, v) succeeds and consumes b exactly; y == x where
          the class defines __eq__ (field-wise comparison of the constructor fields otherwise);
          always enc(y, v) == b.
Backward: for structure-aware mutations b' of valid encodings that the decoder accepts:
          b2 = enc(dec(b')) succeeds, y2 = dec(b2) succeeds and y2 == y1.
"""
import os
import re
import subprocess
import sys

from hypothesis import strategies as st

from vlib import codec_table as T
from vlib import core
from vlib import ttlvref

PID = "C01"
LEVEL = "exploration"
RULE = ("cases are drawn per (class, KMIP version) from the declarative table vlib/codec_table.py "
        "(presence bitmap over optional fields biased to none/all/single toggles, boundary-biased "
        "values, every enumeration member in a sweep); a case is non-trivial when it has at least "
        "one optional field present or a boundary value, and is counted once per distinct "
        "(class, version, top-level presence bitmap, set of text/bytes length residues mod 8); "
        "class_histogram holds per-class forward case counts (0 = class never exercised), "
        "backward_* counters the mutated encodings the decoder accepted/rejected")
ASSUMPTIONS = [
    "only documented argument types are generated (the property is about constructible values, "
    "not type confusion)",
    "headers/messages carry the same protocol version as the one used to encode them",
    "classes without a wire form of their own (Base, Struct, CredentialValue, RequestPayload, "
    "ResponsePayload, MessageExtension) are listed but not exercised",
    "equality is the library's __eq__ where defined; for classes without __eq__ the constructor "
    "fields of the table are compared one by one (and re-encoded bytes always)",
    "in the backward direction a decoder rejection (any exception, or trailing bytes) is not judged",
    "domain restrictions (not probed): under KMIP 2.0, values that the library converts to an "
    "Attributes structure carry no attribute index, no template names, no custom (x-) attributes "
    "and no Operation Policy Name (KMIP 2.0 has none of these; the writer refuses or drops them); "
    "attribute names are those for which the library has a value class; KeyValue holds byte-string "
    "key material (the constructor rejects KeyMaterialStruct); no message extensions; "
    "DateTime/TimeStamp values are always given (None means 'now')",
    "while the confirmed TextString padding defect is present (self-probe), backward cases whose "
    "bytes contain a TextString of length 0 mod 8 are skipped and counted (their second decode "
    "fails for that reason alone)",
]
SHRINK_BUDGET = 150

# message normalisation (own copy so that bucket keys do not move when shared code changes)
_N_ENUMREPR = re.compile(r"<\w+\.\w+: [^>]*>")
_N_ENUMNAME = re.compile(r"\b[A-Z]\w*\.[A-Z][A-Z_0-9a-z]*\b")
_N_BRLIST = re.compile(r"\[[^\]]*\]")
_N_HEXRUN = re.compile(r"\b[0-9a-fA-F]{8,}\b")
_N_QUOTED = re.compile(r"'[^']*'|\"[^\"]*\"")
_N_NUM = re.compile(r"0x[0-9a-fA-F]+|\b\d+\b")


def _norm(msg):
    msg = str(msg).split("\n")[0][:200]
    # a quoted value that itself holds quote or control characters (generated data echoed by the
    # message) cannot be cut out pairwise: everything from the first quote on is the value
    if any(ord(ch) < 32 or ord(ch) == 127 for ch in msg) or \
            (msg.count("'") % 2 == 1 and '"' not in msg) or (msg.count('"') % 2 == 1 and "'" not in msg):
        m = re.search(r"['\"]", msg)
        if m:
            msg = msg[:m.start()] + "'x'"
    for rx, rep in ((_N_ENUMREPR, "E"), (_N_ENUMNAME, "E"), (_N_BRLIST, "[..]"),
                    (_N_HEXRUN, "H"), (_N_QUOTED, "Q"), (_N_NUM, "N")):
        msg = rx.sub(rep, msg)
    return msg


_POSITIONAL = ("read_tag", "read_type", "read_length", "is_oversized")


def _site(exc):
    """'file.py:Class.function' of the innermost frame inside kmip/.  When that frame is the
    positional plumbing of Base (read_tag/read_type/read_length/is_oversized: 'the next item is
    not what this reader wants') the root cause is the reader that asked for the item, so the
    nearest frame outside primitives.py names the site - one step further out when that frame was
    merely reading its own header (otherwise every structure whose writer omits an item would
    share one bucket)."""
    frames = []
    tb = exc.__traceback__
    while tb is not None:
        code = tb.tb_frame.f_code
        fn = code.co_filename.replace("\\", "/")
        if "/kmip/" in fn and "/vlib/" not in fn:
            frames.append((fn.split("/kmip/", 1)[1], getattr(code, "co_qualname", code.co_name)))
        tb = tb.tb_next
    if not frames:
        return core.exc_site(exc)
    inner = frames[-1]
    if inner[0].endswith("core/primitives.py") and inner[1].split(".")[-1] in _POSITIONAL:
        k = len(frames) - 1
        while k >= 0 and frames[k][0].endswith("core/primitives.py"):
            k -= 1
        if k >= 0:
            if frames[k + 1][1] == "Base.read" and k >= 1:
                k -= 1
            return "%s:%s>%s" % (frames[k][0], frames[k][1], inner[1].split(".")[-1])
    return "%s:%s" % inner


def _bucket(phase, exc):
    return "|".join([PID, phase, type(exc).__name__, _site(exc), _norm(exc)])


# ---------------------------------------------------------------------- comparison helpers
def _lib():
    from kmip.core import primitives, utils
    return primitives, utils


_ROW_BY_CLS = {}


def _row_of(obj):
    if not _ROW_BY_CLS:
        for r in T.ROWS.values():
            _ROW_BY_CLS[r.cls] = r
    return _ROW_BY_CLS.get(type(obj))


def same(a, b, v, library):
    """library=True: the library's notion (== ; identity for classes without __eq__).
    library=False: structural - classes without __eq__ are compared field by field."""
    primitives, utils = _lib()
    if a is None or b is None:
        return a is b
    if isinstance(a, (list, tuple)):
        return isinstance(b, (list, tuple)) and len(a) == len(b) and \
            all(same(p, q, v, library) for p, q in zip(a, b))
    if isinstance(a, utils.BytearrayStream):
        return isinstance(b, utils.BytearrayStream) and a.buffer == b.buffer
    if isinstance(a, primitives.Base):
        if type(a).__eq__ is not object.__eq__:
            return (a == b) is True
        if library:
            return a is b
        if type(a) is not type(b):
            return False
        row = _row_of(a)
        if row is None:
            return T.encode(a, v) == T.encode(b, v)
        return all(same(_getattr(a, f), _getattr(b, f), v, False)
                   for f in row.fields if not f.meta)
    return a == b


def _getattr(obj, f):
    for n in (f.attr, "_" + f.attr, f.name, "_" + f.name):
        if hasattr(obj, n):
            return getattr(obj, n)
    return None


def first_differing_field(row, x, y, v, library, only=None):
    """-> (class name, field name, detail, 'no-eq' or '') for the innermost first differing
    constructor field (descending into nested table classes so that one defect reached through
    several outer classes keeps one name).  A real value difference is preferred over a
    difference that is only object identity of a nested class without __eq__.  None when no table
    field differs."""
    primitives, _u = _lib()
    identity_only = None
    for f in row.fields:
        if f.meta or (only is not None and f.name not in only):
            continue
        try:
            ax, ay = _getattr(x, f), _getattr(y, f)
            if same(ax, ay, v, library):
                continue
            if library and same(ax, ay, v, False):
                if identity_only is None:
                    identity_only = (row.name, f.name,
                                     "%s compares by identity" % type(ax).__name__, "no-eq")
                continue
            # descend
            pairs = []
            if isinstance(ax, primitives.Base) and type(ax) is type(ay):
                pairs = [(ax, ay)]
            elif isinstance(ax, list) and isinstance(ay, list) and len(ax) == len(ay):
                pairs = [(p, q) for p, q in zip(ax, ay)
                         if isinstance(p, primitives.Base) and type(p) is type(q)
                         and not same(p, q, v, library)][:1]
            for p, q in pairs:
                sub = _row_of(p)
                if sub is not None and sub.fields and not (
                        len(sub.fields) <= 2 and sub.fields[0].name == "value"):
                    d = first_differing_field(sub, p, q, v,
                                              type(p).__eq__ is not object.__eq__)
                    if d is not None:
                        return d
            return (row.name, f.name, "%r != %r" % (ax, ay), "")
        except Exception as e:   # comparison itself failed
            return (row.name, f.name, "comparison raised %r" % (e,), "")
    return identity_only


_TYPE_NAMES = {1: "Structure", 2: "Integer", 3: "LongInteger", 4: "BigInteger", 5: "Enumeration",
               6: "Boolean", 7: "TextString", 8: "ByteString", 9: "DateTime", 10: "Interval"}


def _tagname(tag):
    from kmip.core import enums
    try:
        return enums.Tags(tag).name
    except ValueError:
        return "%06x" % tag


def byte_differences(b1, b2, cls):
    """Lenient item-by-item comparison of two encodings -> sorted list of root-cause labels.
    A difference inside a leaf item is named by the item's primitive type (one primitive defect
    reached through fifty outer classes is one label); a difference in the sequence of children
    is named by the class and the tag path."""
    out = set()

    def hdr(b, o, end):
        if o + 8 > end:
            return None
        return (int.from_bytes(b[o:o + 3], "big"), b[o + 3], int.from_bytes(b[o + 4:o + 8], "big"))

    def walk(o1, e1, o2, e2, path, last_leaf):
        while o1 < e1 or o2 < e2:
            h1, h2 = hdr(b1, o1, e1), hdr(b2, o2, e2)
            if h2 is not None and h2[0] == 0 and h2[1] == 0 and (h1 is None or h1[0] != 0):
                out.add("%s|spurious-zero-bytes-after-item" % (last_leaf or "Structure"))
                o2 += 8
                continue
            if h1 is None or h2 is None:
                which = "item-missing" if h2 is None else "item-added"
                t = (h1 or h2)
                out.add("in-%s|%s|%s" % (_tagname(path[-1]) if path else cls, _tagname(t[0]),
                                         which))
                return
            if h1[0] != h2[0] or h1[1] != h2[1]:
                out.add("in-%s|%s-vs-%s" % (_tagname(path[-1]) if path else cls,
                                            _tagname(h1[0]), _tagname(h2[0])))
                return
            tag, typ, l1 = h1
            l2 = h2[2]
            p1, p2 = (l1 + 7) // 8 * 8, (l2 + 7) // 8 * 8
            if typ == 1:
                walk(o1 + 8, min(e1, o1 + 8 + l1), o2 + 8, min(e2, o2 + 8 + l2),
                     path + [tag], None)
                last_leaf = None
            else:
                name = _TYPE_NAMES.get(typ, "type%d" % typ)
                if l1 != l2:
                    out.add("%s|length" % name)
                elif b1[o1 + 8:o1 + 8 + p1] != b2[o2 + 8:o2 + 8 + p2]:
                    out.add("%s|value" % name)
                last_leaf = name
            o1 += 8 + p1
            o2 += 8 + p2
    try:
        walk(0, len(b1), 0, len(b2), [], None)
    except Exception:
        out.add("%s|undiffable" % cls)
    return sorted(out) or ["%s|length-fields-only" % cls]


def has_text_len_mod8(b):
    """Does the (possibly odd) encoding contain a TextString item whose length is 0 mod 8?"""
    def walk(o, end):
        while o + 8 <= end:
            typ = b[o + 3]
            ln = int.from_bytes(b[o + 4:o + 8], "big")
            if typ == 1:
                if walk(o + 8, min(end, o + 8 + ln)):
                    return True
            elif typ == 7 and ln % 8 == 0:
                return True
            o += 8 + (ln + 7) // 8 * 8
        return False
    try:
        return walk(0, len(b))
    except Exception:
        return False


_DEFECTS = {}


def text_padding_defect_present():
    """Self-probe: a decoded TextString whose length is a multiple of 8 re-encodes with eight
    spurious zero bytes (confirmed defect).  While that is so, backward cases containing such an
    item cannot be judged (their second decode fails for that reason) and are skipped+counted."""
    if "textpad" not in _DEFECTS:
        try:
            spec = {"cls": "TextString", "v": [1, 0], "fields": {"value": ""}}
            b = T.encode(T.build(spec), (1, 0))
            _DEFECTS["textpad"] = T.encode(T.decode("TextString", b, (1, 0)), (1, 0)) != b
        except Exception:
            _DEFECTS["textpad"] = False
    return _DEFECTS["textpad"]


# ---------------------------------------------------------------------- forward oracle
def forward(spec):
    """-> (buckets, encoding or None).  Never raises for oracle failures."""
    name, v = spec["cls"], tuple(spec["v"])
    row = T.ROWS[name]
    try:
        x = T.build(spec)
    except Exception as e:
        if name == "Interval" and isinstance(e, ValueError) and spec["fields"].get("value") == 2 ** 32:
            # the out-of-range probe value: a constructor that refuses it is the repaired behaviour
            # (the value is then simply not constructible, which the property does not quantify over)
            return [], None
        return [(_bucket("build", e), "constructor refused a table value: %r" % (e,))], None
    try:
        b = T.encode(x, v)
    except Exception as e:
        return [(_bucket("encode", e), "%s under KMIP %d.%d: %r" % (name, v[0], v[1], e))], None
    pure = _purity(spec, name, v, b) + _stale(spec, name, v)
    try:
        y = T.decode(name, b, v, hint=spec)
    except T.CodecTrailingBytes as e:
        return pure + [("%s|decode|trailing-bytes|%s" % (PID, name), str(e))], b
    except Exception as e:
        return [(_bucket("decode", e),
                 "%s under KMIP %d.%d encodes (%d bytes) but cannot be decoded: %r"
                 % (name, v[0], v[1], len(b), e))], b
    buckets = list(pure)
    has_eq = type(x).__eq__ is not object.__eq__
    vs = "KMIP %d.%d" % (v[0], v[1])
    try:
        equal = (y == x) is True if has_eq else None
    except Exception as e:
        buckets.append((_bucket("eq", e), "__eq__ raised"))
        equal = None
    if equal is False:
        d = first_differing_field(row, x, y, v, library=True)
        if d is None:
            buckets.append(("%s|roundtrip-unequal|%s|?" % (PID, name),
                            "%s: y != x, no differing table field" % vs))
        else:
            key = "%s|roundtrip-unequal|%s|%s" % (PID, d[0], d[1])
            if d[3]:
                key += "|nested-class-without-__eq__"
            buckets.append((key, "%s %s: %s" % (name, vs, d[2])))
    elif not has_eq:
        d = first_differing_field(row, x, y, v, library=False, only=set(spec.get("fields", {})))
        if d is not None:
            key = "%s|roundtrip-unequal|%s|%s" % (PID, d[0], d[1])
            if d[3]:
                key += "|nested-class-without-__eq__"
            buckets.append((key, "%s %s (field-wise, class has no __eq__): %s"
                            % (name, vs, d[2])))
    try:
        b2 = T.encode(y, v)
    except Exception as e:
        buckets.append((_bucket("reencode", e), "decoded %s cannot be encoded again" % name))
        return buckets, b
    if b2 != b:
        for label in byte_differences(b, b2, name):
            buckets.append(("%s|reencode-differs|%s" % (PID, label),
                            "%s %s: enc(dec(b)) != b (%d vs %d bytes)"
                            % (name, vs, len(b2), len(b))))
    return buckets, b


_VERSIONS_OF = {}


def _purity(spec, name, v, b):
    """Encoding observes a value, it does not change it: a second, equally built value that has
    first been encoded under ANOTHER version the class is defined for (whatever that gave) encodes
    under v to the same bytes.  -> buckets"""
    if not _VERSIONS_OF:
        for n_, w_ in T.pairs():
            _VERSIONS_OF.setdefault(n_, []).append(tuple(w_))
    out = []
    others = [w for w in _VERSIONS_OF.get(name, []) if w != v]
    # the neighbours across the two format changes (1.x <-> 2.0) and one more
    pick = [w for w in ((2, 0), (1, 4), (1, 0)) if w in others][:2]
    for w in pick:
        try:
            x2 = T.build(spec)
        except Exception:
            return out
        try:
            T.encode(x2, w)
        except Exception:
            pass
        try:
            b3 = T.encode(x2, v)
        except Exception as e:
            out.append(("%s|encoding-changes-the-value|%s|cannot-encode-again" % (PID, name),
                        "%s encodes under KMIP %d.%d, but not any more after it was encoded under %d.%d: %r"
                        % (name, v[0], v[1], w[0], w[1], e)))
            continue
        if b3 != b:
            for label in byte_differences(b, b3, name):
                out.append(("%s|encoding-changes-the-value|%s" % (PID, label),
                            "%s: bytes under KMIP %d.%d differ once the same object was encoded under %d.%d before"
                            % (name, v[0], v[1], w[0], w[1])))
    return out


def _stale(spec, name, v):
    """A value that has been encoded once and then has a field of a NESTED object changed (through
    that object's own setter) encodes like a value built with the new field from the start: what
    an encoder remembers of the last time does not outlive a change.  One nested text / integer
    field per case; skipped where the nested object is not reachable by attribute or the setter
    refuses the new value.  -> buckets"""
    import copy as _copy
    row = T.ROWS[name]
    fields = spec.get("fields", {})
    for f1 in row.fields:
        sub = fields.get(f1.name)
        if not (isinstance(sub, dict) and sub.get("cls") in T.ROWS) or f1.post or f1.meta:
            continue
        for f2 in T.ROWS[sub["cls"]].fields:
            val = sub.get("fields", {}).get(f2.name)
            if f2.post or f2.meta or val is None:
                continue
            if isinstance(f2.kind, T.Text) and isinstance(val, str):
                new = val + "x"
            elif isinstance(f2.kind, T.Int) and isinstance(val, int) and not isinstance(val, bool) \
                    and 0 <= val < 2 ** 30:
                new = val + 1
            else:
                continue
            try:
                x = T.build(spec)
                T.encode(x, v)
                inner = getattr(x, f1.name)
                if inner is None or inner is not getattr(x, f1.name):
                    continue
                # only through a setter the class itself offers (a plain attribute of a primitive
                # is not an interface: its length is fixed when it is constructed)
                prop = getattr(type(inner), f2.name, None)
                if not isinstance(prop, property) or prop.fset is None:
                    continue
                libval = T._build_value(f2.kind, new, v, sub["fields"])
                setattr(inner, f2.name, libval)
                if getattr(inner, f2.name) != libval:
                    continue
                got = T.encode(x, v)
                spec2 = _copy.deepcopy(spec)
                spec2["fields"][f1.name]["fields"][f2.name] = new
                want = T.encode(T.build(spec2), v)
            except Exception:
                continue
            if got != want:
                return [("%s|stale-encoding-after-a-nested-field-changed|%s.%s.%s" % (PID, name, f1.name, f2.name),
                         "%s under KMIP %d.%d: encoded, then %s.%s set to %r, encoded again: %d bytes, a value "
                         "built with that field from the start gives %d bytes%s"
                         % (name, v[0], v[1], f1.name, f2.name, new, len(got), len(want),
                            " (the same as before the change)" if got != want and len(got) != len(want) else ""))]
            return []
    return []


# ---------------------------------------------------------------------- mutations (backward)
def _enc_node(node):
    if "raw" in node:
        raw = node["raw"]
        return (node["tag"].to_bytes(3, "big") + bytes([node["type"]])
                + len(raw).to_bytes(4, "big") + raw + b"\x00" * (-len(raw) % 8))
    if node["type"] == ttlvref.STRUCTURE:
        return ttlvref.encode_struct(node["tag"], [_enc_node(c) for c in node["children"]])
    return ttlvref.encode_node(node)


def _structs(node, acc):
    if "children" in node:
        if node["children"]:
            acc.append(node)
        for c in node["children"]:
            _structs(c, acc)
    return acc


def _bigs(node, acc):
    if node["type"] == ttlvref.BIG_INTEGER:
        acc.append(node)
    for c in node.get("children", []):
        _bigs(c, acc)
    return acc


MUT_KINDS = ["del", "dup", "swap", "graft", "widen", "identity"]
_MUT_WEIGHTED = ["del", "del", "dup", "dup", "swap", "swap", "graft", "graft", "widen", "identity"]


def mutate(b, op):
    """op = [kind, i, j, extra] -> mutated bytes or None when not applicable."""
    try:
        root = ttlvref.parse_one(b, strict=False)
    except ttlvref.TTLVError:
        return None
    kind, i, j = op[0], op[1], op[2]
    if kind == "identity":
        return _enc_node(root)
    if kind == "widen":
        bigs = _bigs(root, [])
        if not bigs:
            return None
        n = bigs[i % len(bigs)]
        val = n["value"]
        width = (n["length"] // 8 + 1 + (j % 2)) * 8
        n["raw"] = val.to_bytes(width, "big", signed=True)
        return _enc_node(root)
    structs = _structs(root, [])
    if not structs:
        return None
    s = structs[i % len(structs)]
    kids = s["children"]
    k = j % len(kids)
    if kind == "del":
        del kids[k]
    elif kind == "dup":
        kids.insert(k, kids[k])
    elif kind == "swap":
        if len(kids) < 2:
            return None
        k2 = (k + 1) % len(kids)
        kids[k], kids[k2] = kids[k2], kids[k]
    elif kind == "graft":
        donor = op[3] if len(op) > 3 else None
        if not donor:
            return None
        try:
            kids[k] = ttlvref.parse_one(bytes.fromhex(donor), strict=False)
        except ttlvref.TTLVError:
            return None
    else:
        return None
    return _enc_node(root)


_VERSION_FROM_HEADER = ("RequestMessage", "ResponseMessage", "RequestHeader", "ResponseHeader")


def _header_version(obj):
    hdr = getattr(obj, "request_header", None) or getattr(obj, "response_header", None) or obj
    pv = getattr(hdr, "protocol_version", None)
    try:
        v = (pv.major, pv.minor)
    except Exception:
        return None
    return v if v in T.VERSIONS else None


def backward(name, v, data, hint):
    """-> ('rejected'|'accepted'|'skipped', buckets)"""
    try:
        y1 = T.decode(name, data, v, hint=hint)
    except Exception:
        return "rejected", []
    if text_padding_defect_present() and has_text_len_mod8(data):
        return "skipped_textpad", []
    if name in _VERSION_FROM_HEADER:
        # read() of headers and messages ignores its kmip_version argument and follows the
        # protocol version found in the header; a faithful re-encoding uses that version too
        v = _header_version(y1)
        if v is None:
            return "skipped_unknown_header_version", []
    try:
        b2 = T.encode(y1, v)
    except Exception as e:
        return "accepted", [(_bucket("backward-encode", e),
                             "decoder accepted %s (KMIP %d.%d) %s but the result cannot be "
                             "encoded: %r" % (name, v[0], v[1], data.hex()[:400], e))]
    try:
        y2 = T.decode(name, b2, v, hint=hint)
    except Exception as e:
        return "accepted", [(_bucket("backward-decode", e),
                             "enc(dec(b)) of %s is not decodable; b=%s" % (name, data.hex()[:400]))]
    row = T.ROWS[name]
    buckets = []
    by_bytes = type(y1).__eq__ is object.__eq__
    if not by_bytes:
        try:
            eq = (y2 == y1) is True
        except Exception as e:
            return "accepted", [(_bucket("backward-eq", e), "__eq__ raised")]
        if not eq:
            d = first_differing_field(row, y1, y2, v, library=True) or (name, "?", "", "")
            if d[3]:
                # only the identity of a nested class without __eq__ differs: that weakness of
                # the library's equality is reported by the forward oracle; judge by bytes here
                by_bytes = True
            else:
                buckets.append(("%s|backward-unequal|%s|%s" % (PID, d[0], d[1]),
                                "%s KMIP %d.%d b=%s: %s"
                                % (name, v[0], v[1], data.hex()[:300], d[2])))
    if by_bytes:
        try:
            b3 = T.encode(y2, v)
        except Exception as e:
            return "accepted", [(_bucket("backward-reencode", e), "")]
        if b3 != b2:
            for label in byte_differences(b2, b3, name):
                buckets.append(("%s|backward-unequal|%s" % (PID, label),
                                "%s KMIP %d.%d b=%s" % (name, v[0], v[1], data.hex()[:300])))
    return "accepted", buckets


# ---------------------------------------------------------------------- case evaluation
def judge(spec, stats=None):
    """Evaluate one case spec (forward + its mutations). -> list of (key, detail)."""
    name, v = spec["cls"], tuple(spec["v"])
    if spec.get("raw_only"):
        buckets, b = [], None       # bytes found by the fuzz stage: backward oracle only
    else:
        buckets, b = forward(spec)
    if b is not None:
        for op in spec.get("mut", []):
            data = mutate(b, op)
            if data is None:
                continue
            verdict, bb = backward(name, v, data, spec)
            if stats is not None:
                stats["backward_" + verdict] = stats.get("backward_" + verdict, 0) + 1
                stats["mut_" + op[0]] = stats.get("mut_" + op[0], 0) + 1
            buckets.extend(bb)
    # raw byte strings to decode as this class (seeded by known findings / fuzz corpus)
    for hx in spec.get("raw", []):
        verdict, bb = backward(name, v, bytes.fromhex(hx), spec)
        if stats is not None:
            stats["backward_" + verdict] = stats.get("backward_" + verdict, 0) + 1
        buckets.extend(bb)
    return buckets, b


def replay(spec):
    buckets, _b = judge(spec)
    return buckets


# ---------------------------------------------------------------------- non-triviality
def _leaf_info(spec, out, top=True):
    """Collect (is_boundary, residue or None) for the leaves of a spec."""
    row = T.ROWS[spec["cls"]]
    fields = spec.get("fields", {})
    for f in row.fields:
        if f.name not in fields:
            continue
        _leaf_val(f.kind, fields[f.name], fields, out)


def _leaf_val(kind, val, sib, out):
    if isinstance(val, dict) and "cls" in val:
        _leaf_info(val, out, False)
        return
    if isinstance(val, list):
        item = kind.item if isinstance(kind, T.Lst) else kind
        if len(val) == 0:
            out.append((True, None))
        for x in val:
            _leaf_val(item, x, sib, out)
        return
    if isinstance(kind, T.Var):
        return
    if isinstance(kind, (T.Text, T.AttrName)):
        n = len(val.encode("utf-8", "surrogatepass"))
        out.append((n in T.LEN_EDGES or n >= 256 or any(ord(c) > 127 for c in val), n % 8))
    elif isinstance(kind, (T.Bytes, T.Stream)):
        n = len(val) // 2
        out.append((n in T.LEN_EDGES or n >= 256, n % 8))
    elif isinstance(kind, T.Int):
        out.append((val in T.INT_EDGES, None))
    elif isinstance(kind, (T.Long, T.Date)):
        out.append((val in T.LONG_EDGES, None))
    elif isinstance(kind, T.Ivl):
        out.append((val in T.IVL_EDGES or val == 2 ** 32, None))
    elif isinstance(kind, T.Big):
        out.append((val in T.BIG_EDGES, None))
    elif isinstance(kind, T.Bool):
        out.append((val is False, None))
    elif isinstance(kind, T.Mask):
        out.append((val == 0, None))
    else:
        out.append((False, None))


def nontrivial_key(spec):
    """-> (key tuple, satisfies_rule)"""
    row = T.ROWS[spec["cls"]]
    fields = spec.get("fields", {})
    v = tuple(spec["v"])
    opt = [f for f in row.fields if not f.meta and f.req is not True and f.exists(v)]
    bitmap = tuple(1 if f.name in fields else 0 for f in opt)
    leaves = []
    _leaf_info(spec, leaves)
    residues = tuple(sorted(set(r for _b, r in leaves if r is not None)))
    boundary = any(bd for bd, _r in leaves)
    key = (spec["cls"], v, bitmap, residues)
    return key, (any(bitmap) or boundary)


# ---------------------------------------------------------------------- workers
_MUT_OP = st.tuples(st.sampled_from(_MUT_WEIGHTED), st.integers(0, 999), st.integers(0, 999),
                    st.integers(0, 999))


def _case_strategy(name, v, n_mut):
    return st.tuples(T.strategy_for(name, v), st.lists(_MUT_OP, min_size=0, max_size=n_mut))


class _Pool(object):
    """Subtrees of earlier encodings in this worker (donors for 'graft')."""

    def __init__(self, cap=256):
        self.items = []
        self.cap = cap
        self.n = 0

    def add(self, b):
        try:
            root = ttlvref.parse_one(b, strict=False)
        except ttlvref.TTLVError:
            return
        for node in [root] + root.get("children", [])[:3]:
            enc = _enc_node(node)
            if len(enc) > 600:
                continue
            if len(self.items) < self.cap:
                self.items.append(enc.hex())
            else:
                self.items[self.n % self.cap] = enc.hex()
            self.n += 1

    def pick(self, k):
        return self.items[k % len(self.items)] if self.items else None


def _run_case(col, spec, seen, pool, stats):
    key, rule = nontrivial_key(spec)
    first = rule and key not in seen
    if rule:
        seen.add(key)
        col.bump("cases_satisfying_nontrivial_rule")
    if spec.get("probe"):
        col.bump("probe_cases:" + spec["probe"])
    elif not spec.get("sweep"):
        for p in T.ROWS[spec["cls"]].probes:
            col.exclude("%s: %s" % (p, T.PROBES[p]))
    buckets, b = judge(spec, stats)
    col.record(spec, nontrivial=first, classes=[spec["cls"]], buckets=buckets)
    if b is not None and pool is not None:
        pool.add(b)
    return b


def worker(shard, seed, units, n, n_mut):
    col = core.Collector(PID)
    seen = set()
    pool = _Pool()
    stats = {}
    for unit in units:
        if unit[0] == "$sweep":
            _enum_sweep(col, unit[1], unit[2], seen, stats)
            continue
        name, v = unit[0], tuple(unit[1])
        row = T.ROWS[name]

        def fn(drawn, name=name, v=v):
            spec, muts = drawn
            ops = []
            for kind, i, j, k in muts:
                if kind == "graft":
                    donor = pool.pick(k)
                    if donor is None:
                        continue
                    ops.append([kind, i, j, donor])
                else:
                    ops.append([kind, i, j])
            if ops:
                spec = dict(spec, mut=ops)
            _run_case(col, spec, seen, pool, stats)
        core.draw_examples(_case_strategy(name, v, n_mut), n,
                           core.derive_seed(seed, name, v[0], v[1]), fn)
    for k, val in stats.items():
        col.bump(k, val)
    return col


def _enum_sweep(col, part, nparts, seen, stats):
    """Every member of every enumeration the wire can carry, through the generic Enumeration
    primitive and through every wrapper row whose value is an enumeration."""
    todo = []
    for en in T.INT_ENUMS:
        for m in T.enum_members(en):
            todo.append(("Enumeration", {"enum": en, "value": m}))
    for row in T.concrete_rows():
        for f in row.fields:
            if f.name == "value" and isinstance(f.kind, T.Enum) and f.kind.name != "$ENUMS":
                for m in (f.kind.members or T.enum_members(f.kind.name)):
                    todo.append((row.name, {"value": m}))
    for idx, (name, fields) in enumerate(todo):
        if idx % nparts != part:
            continue
        vs = T.ROWS[name].versions()
        v = vs[idx % len(vs)]
        spec = {"cls": name, "v": list(v), "fields": fields, "sweep": True}
        buckets, _b = judge(spec, stats)
        col.record(spec, nontrivial=False, classes=[name], buckets=buckets)
        col.bump("enum_members_swept")


# ---------------------------------------------------------------------- entry point
def _units(jobs):
    pairs = T.pairs()
    pairs.sort(key=lambda p: (-T.ROWS[p[0]].weight, p[0], p[1]))
    shards = [[] for _ in range(jobs)]
    for i, (name, v) in enumerate(pairs):
        shards[i % jobs].append((name, list(v)))
    for i in range(jobs):
        shards[i].append(("$sweep", i, jobs))
    return shards


def run(ctx):
    jobs = max(1, min(core.NCPU, 16))
    n = ctx.n(40, 1000)
    n_mut = ctx.n(2, 3)
    shards = _units(jobs)
    args = [(i, ctx.seed, shards[i], n, n_mut) for i in range(jobs)]
    fuzz = None if ctx.quick else _fuzz_start(ctx)      # runs beside the shards
    dicts = core.run_sharded("vlib.props.c01", "worker", args, jobs=jobs)
    col = core.merged(PID, dicts)
    for r in T.ROWS.values():
        if r.abstract:
            col.exclude("class without a wire form of its own (abstract/stub): " + r.name)
        else:
            col.classes.setdefault(r.name, 0)
    col.extra["pairs"] = len(T.pairs())
    col.extra["cases_per_pair"] = n
    if fuzz is not None:
        _fuzz_collect(fuzz, col)
    return col


def _fuzz_start(ctx):
    """atheris/libFuzzer over the decoders of all message/payload classes with the backward
    oracle inside the target (vlib/c01_fuzz.py): bounded by -runs, in a subprocess that runs
    beside the Hypothesis shards.  Running out of the time limit only stops the exploration; a
    missing atheris skips the stage (never a verdict)."""
    import tempfile
    import time
    runs = int(os.environ.get("VERIF_C01_FUZZ_RUNS", "30000"))
    out = tempfile.mkdtemp(prefix="c01-fuzz-")
    cmd = [sys.executable, "-m", "vlib.c01_fuzz", out, str(ctx.seed), str(runs)]
    log = open(os.path.join(out, "log.txt"), "wb")
    proc = subprocess.Popen(cmd, stdout=log, stderr=subprocess.STDOUT)
    return {"proc": proc, "out": out, "log": log, "t0": time.time(), "runs": runs,
            "limit": int(os.environ.get("VERIF_C01_FUZZ_SECONDS", "1200"))}


def _fuzz_collect(fz, col):
    import json
    import shutil
    import time
    note = "completed"
    try:
        rc = fz["proc"].wait(timeout=max(5, fz["limit"] - (time.time() - fz["t0"])))
        if rc != 0:
            note = "fuzzer exit %d" % rc
    except subprocess.TimeoutExpired:
        fz["proc"].kill()
        fz["proc"].wait()
        note = "stopped at the %ds time limit" % fz["limit"]
    fz["log"].close()
    path = os.path.join(fz["out"], "findings.json")
    if not os.path.exists(path):
        try:
            with open(os.path.join(fz["out"], "log.txt"), "rb") as f:
                tail = f.read()[-300:].decode("utf-8", "replace")
        except OSError:
            tail = ""
        col.extra["fuzz_stage"] = "skipped (%s) %s" % (note, tail)
        shutil.rmtree(fz["out"], ignore_errors=True)
        return
    with open(path) as f:
        data = json.load(f)
    for key, info in sorted(data["findings"].items()):
        spec = {"cls": info["cls"], "v": info["v"], "fields": {}, "raw_only": True,
                "raw": [info["raw"]]}
        col.add_bucket(key, spec, "found by the fuzz stage: " + info.get("detail", ""))
    for k, val in data["stats"].items():
        col.extra["fuzz_" + k] = val
    col.extra["fuzz_runs_requested"] = fz["runs"]
    col.extra["fuzz_stage"] = note
    shutil.rmtree(fz["out"], ignore_errors=True)
