"""C14 - Locate returns exactly the permitted, matching objects, newest first; offset/maximum
select the corresponding slice of that same ordered list."""
import itertools
import sqlite3

from hypothesis import strategies as st

from vlib import core, harness as H
from vlib import fixtures as F
from vlib.props.c03 import model_allowed          # independent access-decision model (C03)

PID = "C14"
LEVEL = "exploration"
RULE = ("Hypothesis-generated stores (0-12 objects of the 7 stored types, 2-3 owners, operation "
        "policies default / public / missing / 1-2 generated ones with preset and group sections, "
        "states via Activate/Revoke, 0-3 names (text or URI typed), 0-2 object groups, 0-2 "
        "application-specific-information entries, usage masks, sensitive flags, algorithms/lengths, "
        "creation times from the harness clock: distinct seconds, same second, clock set back, "
        "owner-less legacy rows, objects destroyed again) x Locate requests (every requester incl. a stranger, group "
        "information, KMIP 1.0-2.0, conjunctions of 0-4 filters over the 13 attributes of the "
        "statement with values biased to the store, 1-3 Initial Date values, offset/maximum in "
        "{absent, 0..n+1, -1}, page walks); between the 3-6 Locates on one engine the store changes "
        "(a new object registered, a state change, a destroy) in a third of the gaps, and a sixth of "
        "the requests are ONE batch [Locate, Register, Locate] judged before / after the new object.  One evaluation = one (store, request) pair: the "
        "unpaged Locate twice, then every page.  non-trivial = at least one filter and the model "
        "result is neither empty nor the whole permitted set, or a page cuts a non-empty list; "
        "per-attribute counters nt_filter/<attr> (attr present in a filter-non-trivial request) "
        "and selective_alone/<attr> (that filter alone is neither empty nor everything) are in the "
        "coverage block")
ASSUMPTIONS = [
    "oracle = model written from the property statement and the KMIP Locate text: permitted("
    "requester) intersected with every filter; mask filter = all requested bits set; Name / Object "
    "Group / Application Specific Information match if any instance equals the filter value (Name: "
    "value and type); one Initial Date = equality, two = inclusive range in either order",
    "an object whose type does not carry the filtered attribute cannot match (State and usage "
    "mask on Opaque Data, algorithm/length on Secret Data and Opaque Data, Certificate Type on "
    "non-certificates); Certificate against Cryptographic Algorithm/Length is a don't-care",
    "access decisions come from the C03 model; built-in default/public policies are transcribed "
    "from docs/source/server.rst; where that model says don't-care, and in the known C03 class "
    "(group information given, policy without groups section), either inclusion is accepted",
    "a Locate answered with General Failure is C13's business and is excluded, not judged; three "
    "or more Initial Date values, negative offset/maximum, and conflicting repeated single-valued "
    "filters answered with an error are don't-cares (counted)",
    "objects created in the same second may appear in either order, but the order must be the "
    "same on every repetition and page",
    "the Initial Date of an object is the harness clock value at its registration; the unique "
    "identifier is taken from the Register response",
    "owner-less rows (legacy data) are produced by a direct SQLite update while the engine is "
    "stopped; no user is their owner",
    "requests are encoded by the library; filters the library cannot express under KMIP 2.0 "
    "(Operation Policy Name, Certificate Type) are excluded and counted",
]
SHRINK_BUDGET = 120
NSHARDS = 16
BASE_TIME = 1_700_000_000

USERS = ["alice", "bob", "carol"]
STRANGER = "dave"
VARIANTS = ["ALLOW_ALL", "ALLOW_OWNER", "DISALLOW_ALL", "no-op", "no-otype"]
GROUP_NAMES = ["g1", "g2"]
TXT = "UNINTERPRETED_TEXT_STRING"
NAME_POOL = [["n1", TXT], ["n2", TXT], ["n3", TXT], ["key", TXT], ["n1", "URI"], ["uri:x", "URI"]]
OGROUP_POOL = ["og1", "og2", "og3"]
ASI_POOL = [["ns1", "d1"], ["ns1", "d2"], ["ns2", "d1"], ["ns2", "d2"]]
MASK_POOL = [None, 0, 1, 2, 3, 4, 8, 12, 12, 5, 15, 7]
MASK_FILTERS = [0, 1, 2, 4, 8, 3, 12, 5, 6, 15]
SYM_ALGS = [["AES", 128], ["AES", 256], ["AES", 128], ["TRIPLE_DES", 192], ["HMAC_SHA256", 256]]
RSA_LENS = [1024, 1024, 2048]
SPLIT_LENS = [128, 256]
SINGLE_VALUED = {"State", "Object Type", "Cryptographic Algorithm", "Cryptographic Length",
                 "Operation Policy Name", "Certificate Type", "Unique Identifier", "Sensitive",
                 "Cryptographic Usage Mask"}
FILTER_ATTRS = ["Name", "State", "Object Type", "Cryptographic Algorithm", "Cryptographic Length",
                "Cryptographic Usage Mask", "Operation Policy Name", "Object Group",
                "Application Specific Information", "Certificate Type", "Unique Identifier",
                "Sensitive", "Initial Date"]
HAS_ALG = {"SymmetricKey", "PublicKey", "PrivateKey", "SplitKey"}

# built-in policies, Locate column, transcribed from docs/source/server.rst ("default" and
# "public" tables): default = Allow All for Certificate and Public Key, Allow Owner for the
# other stored types; public has entries for Template objects only.
DEFAULT_LOCATE = {"Certificate": "ALLOW_ALL", "PublicKey": "ALLOW_ALL", "SymmetricKey": "ALLOW_OWNER",
                  "PrivateKey": "ALLOW_OWNER", "SplitKey": "ALLOW_OWNER",
                  "SecretData": "ALLOW_OWNER", "OpaqueData": "ALLOW_OWNER"}


# ------------------------------------------------------------------------------ generator
@st.composite
def gen_section(draw):
    base = draw(st.sampled_from(VARIANTS[:3]))
    sec = {}
    for t in H.OBJECT_TYPES:
        sec[t] = draw(st.sampled_from([base, base, base] + VARIANTS))
    return sec


@st.composite
def gen_policy(draw):
    kind = draw(st.sampled_from(["preset", "preset", "both", "both", "groups"]))
    pol = {}
    if kind in ("preset", "both"):
        pol["preset"] = draw(gen_section())
    if kind in ("groups", "both"):
        gs = draw(st.lists(st.sampled_from(GROUP_NAMES), min_size=1, max_size=2, unique=True))
        pol["groups"] = {g: draw(gen_section()) for g in sorted(gs)}
    return pol


@st.composite
def gen_object(draw, users, pnames, first):
    t = draw(st.sampled_from(H.OBJECT_TYPES))
    o = {"t": t, "owner": draw(st.sampled_from(users)), "pol": draw(st.sampled_from(pnames))}
    o["state"] = draw(st.sampled_from(["PRE_ACTIVE", "PRE_ACTIVE", "ACTIVE", "ACTIVE",
                                       "DEACTIVATED", "COMPROMISED"]))
    o["names"] = draw(st.lists(st.sampled_from(NAME_POOL[:4] * 4 + NAME_POOL[4:]), min_size=0,
                               max_size=3, unique_by=lambda x: x[0]))
    o["grps"] = draw(st.lists(st.sampled_from(OGROUP_POOL), min_size=0, max_size=2, unique=True))
    o["asi"] = draw(st.lists(st.sampled_from(ASI_POOL), min_size=0, max_size=2,
                             unique_by=lambda x: tuple(x)))
    o["mask"] = draw(st.sampled_from(MASK_POOL)) if t in F.HAS_MASK else None
    o["sens"] = draw(st.sampled_from([None, None, False, True, True]))
    if t == "SymmetricKey":
        o["alg"], o["len"] = draw(st.sampled_from(SYM_ALGS))
    elif t in ("PublicKey", "PrivateKey"):
        o["alg"], o["len"] = "RSA", draw(st.sampled_from(RSA_LENS))
    elif t == "SplitKey":
        o["alg"], o["len"] = "AES", draw(st.sampled_from(SPLIT_LENS))
    # seconds between the previous registration and this one: 0 = same second, <0 = clock set back
    o["dt"] = 1 if first else draw(st.sampled_from([1, 1, 1, 1, 1, 2, 3, 0, 0, 0, -2, -5]))
    o["orphan"] = draw(st.integers(0, 13)) == 13
    o["gone"] = draw(st.integers(0, 15)) == 15      # destroyed again after registration
    return o


def _target_value(draw, attr, tgt, ti):
    """The value object number ti (spec tgt) has for attr, or None when it has none."""
    if attr == "Name":
        return draw(st.sampled_from(tgt["names"])) if tgt["names"] else None
    if attr == "State":
        return tgt["state"] if tgt["t"] != "OpaqueData" else None
    if attr == "Object Type":
        return tgt["t"]
    if attr == "Cryptographic Algorithm":
        return tgt.get("alg")
    if attr == "Cryptographic Length":
        return tgt.get("len")
    if attr == "Cryptographic Usage Mask":
        m = tgt.get("mask")
        if not m:
            return None
        bits = [b for b in (1, 2, 4, 8) if m & b]
        return draw(st.sampled_from([m] + bits))
    if attr == "Operation Policy Name":
        return tgt["pol"] or "default"
    if attr == "Object Group":
        return draw(st.sampled_from(tgt["grps"])) if tgt["grps"] else None
    if attr == "Application Specific Information":
        return draw(st.sampled_from(tgt["asi"])) if tgt["asi"] else None
    if attr == "Certificate Type":
        return "X_509" if tgt["t"] == "Certificate" else None
    if attr == "Unique Identifier":
        return {"obj": ti}
    if attr == "Sensitive":
        return bool(tgt["sens"])
    raise ValueError(attr)


def _has_value(tgt, attr):
    if attr == "Name":
        return bool(tgt["names"])
    if attr == "State":
        return tgt["t"] != "OpaqueData"
    if attr in ("Cryptographic Algorithm", "Cryptographic Length"):
        return "alg" in tgt
    if attr == "Cryptographic Usage Mask":
        return bool(tgt.get("mask"))
    if attr == "Object Group":
        return bool(tgt["grps"])
    if attr == "Application Specific Information":
        return bool(tgt["asi"])
    if attr == "Certificate Type":
        return tgt["t"] == "Certificate"
    return True


def _owner_can_locate(o, pols):
    """Spec-level estimate used only to aim the generator: can the owner, without group
    information, locate the object?"""
    if o.get("orphan"):
        return False
    p = o["pol"]
    if p in (None, "default"):
        return True
    if p in pols and pols[p].get("preset"):
        return pols[p]["preset"].get(o["t"]) in ("ALLOW_ALL", "ALLOW_OWNER")
    return False


def _pool_value(draw, attr, objs, pnames):
    """A filter value for attr from the values present anywhere in the store plus absent ones."""
    n = len(objs)
    if attr == "Name":
        present = [nm for o in objs for nm in o["names"]]
        return draw(st.sampled_from(present * 3 + NAME_POOL))
    if attr == "State":
        present = [o["state"] for o in objs if o["t"] != "OpaqueData"]
        return draw(st.sampled_from(present + F.STATES))
    if attr == "Object Type":
        return draw(st.sampled_from([o["t"] for o in objs] * 2 + H.OBJECT_TYPES))
    if attr == "Cryptographic Algorithm":
        present = [o["alg"] for o in objs if "alg" in o]
        return draw(st.sampled_from(present * 2 + ["AES", "RSA", "TRIPLE_DES", "HMAC_SHA256", "DSA"]))
    if attr == "Cryptographic Length":
        present = [o["len"] for o in objs if "len" in o]
        return draw(st.sampled_from(present * 2 + [128, 256, 1024, 2048, 192, 512]))
    if attr == "Cryptographic Usage Mask":
        present = [o["mask"] for o in objs if o.get("mask")]
        return draw(st.sampled_from(present * 2 + MASK_FILTERS))
    if attr == "Operation Policy Name":
        present = [o["pol"] or "default" for o in objs]
        return draw(st.sampled_from(present * 2 + [p or "default" for p in pnames] + ["nope"]))
    if attr == "Object Group":
        present = [g for o in objs for g in o["grps"]]
        return draw(st.sampled_from(present * 3 + OGROUP_POOL))
    if attr == "Application Specific Information":
        present = [a for o in objs for a in o["asi"]]
        return draw(st.sampled_from(present * 3 + ASI_POOL))
    if attr == "Certificate Type":
        return draw(st.sampled_from(["X_509", "X_509", "X_509", "PGP"]))
    if attr == "Unique Identifier":
        if n and draw(st.integers(0, 5)) > 0:
            return {"obj": draw(st.integers(0, n - 1))}
        return {"lit": draw(st.sampled_from(["999", "0", "abc", str(n + 1)]))}
    if attr == "Sensitive":
        return draw(st.booleans())
    raise ValueError(attr)


def _jsonable_value(attr, val):
    if attr == "Name":
        return {"v": val[0], "t": val[1]}
    if attr == "Application Specific Information":
        return {"ns": val[0], "data": val[1]}
    return val


WEIGHTS = {"Name": 4, "State": 3, "Object Type": 3, "Cryptographic Algorithm": 3,
           "Cryptographic Length": 3, "Cryptographic Usage Mask": 4, "Operation Policy Name": 3,
           "Object Group": 3, "Application Specific Information": 3, "Certificate Type": 2,
           "Unique Identifier": 2, "Sensitive": 1, "Initial Date": 5}
MENU = [a for a in FILTER_ATTRS for _ in range(WEIGHTS[a])]


@st.composite
def gen_request(draw, users, objs, pnames, pols):
    """Filter values are biased twice: most come from one target object (so the conjunction
    has a witness), the rest from the values present anywhere in the store or absent ones; the
    requester is mostly the target's owner."""
    n = len(objs)
    # objects their own owner can locate (spec-level estimate) are preferred as targets
    visible = [i for i, o in enumerate(objs) if _owner_can_locate(o, pols)]
    if visible and draw(st.integers(0, 9)) < 9:
        ti = draw(st.sampled_from(visible))
    else:
        ti = draw(st.integers(0, n - 1)) if n else None
    tgt = objs[ti] if n else None
    who_pool = users * 2 + [STRANGER]
    if tgt is not None:
        who_pool = [tgt["owner"]] * 10 + who_pool
    who = draw(st.sampled_from(who_pool))
    groups = draw(st.sampled_from([None] * 7 + [["g1"], ["g2"], ["g1", "g2"], []]))
    v = draw(st.sampled_from([(1, 2), (1, 0), (1, 1), (1, 3), (1, 4), (1, 4), (2, 0), (2, 0)]))
    nf = draw(st.sampled_from([1, 2, 2, 2, 1, 1, 0, 3, 3, 4]))
    witness = tgt is not None and draw(st.integers(0, 9)) < 8
    tmenu = MENU
    if witness:
        tmenu = [a for a in MENU if a == "Initial Date" or _has_value(tgt, a)]
    filters = []
    for _ in range(nf):
        from_target = witness and draw(st.integers(0, 9)) < 9
        attr = draw(st.sampled_from(tmenu if from_target else MENU))
        if attr == "Sensitive" and tuple(v) < (1, 4):
            attr = "Object Type"                # the Sensitive attribute exists from KMIP 1.4
        if attr == "Initial Date":
            if any(f[0] == "Initial Date" for f in filters):
                continue
            k = draw(st.sampled_from([2, 1, 2, 1, 2, 1, 2, 3]))
            deltas = {1: [[0], [0], [0], [0], [1], [-1]],
                      2: [[0, 0], [-1, 1], [-2, 0], [0, 2], [0, 3], [-4, 0], [1, -1], [1, 2],
                          [-1, -3], [3, -3]],
                      3: [[0, 0, 0], [-1, 0, 1], [1, -1, 0]]}[k]
            ds = draw(st.sampled_from(deltas))
            for d in ds:
                if from_target or (n and draw(st.integers(0, 7)) > 0):
                    oi = ti if from_target else draw(st.integers(0, n - 1))
                    val = {"obj": oi, "d": d}
                else:
                    val = {"lit": BASE_TIME + draw(st.integers(-3, 20))}
                if draw(st.integers(0, 5)) == 0:
                    # boundary dates: the epoch (0 is falsy), its neighbours, far future - open
                    # ranges such as [0, T] ("everything up to T") or [T, far future]
                    val = {"lit": draw(st.sampled_from([0, 0, 1, -1, 2 ** 31 - 1, 2 ** 40]))}
                filters.append(["Initial Date", val])
            continue
        val = _target_value(draw, attr, tgt, ti) if from_target else None
        if val is None:
            val = _pool_value(draw, attr, objs, pnames)
        filters.append([attr, _jsonable_value(attr, val)])
    if draw(st.integers(0, 7)) == 0:
        # filters no stored object can satisfy: a custom attribute (the server stores none) and
        # usage-mask bits that no object was registered with (vendor-extension bits)
        filters.append(draw(st.sampled_from([["x-project", "apollo"], ["y-owner-team", "blue"],
                                             ["Cryptographic Usage Mask", 0x01000000],
                                             ["Cryptographic Usage Mask", 0x01000004],
                                             ["Cryptographic Usage Mask", 0x40000000]])))
    filters = draw(st.permutations(filters))
    rng = list(range(0, n + 2)) + [None, None]
    pages = []
    for _ in range(draw(st.sampled_from([2, 1, 2, 0, 3]))):
        off = draw(st.sampled_from(rng + ([-1] if draw(st.integers(0, 15)) == 15 else [])))
        mx = draw(st.sampled_from(rng + ([-1] if draw(st.integers(0, 15)) == 15 else [])))
        if off is None and mx is None:
            continue
        pages.append([off, mx])
    walk = draw(st.sampled_from([None, 2, None, 1, 3]))
    return {"who": who, "groups": groups, "v": list(v), "f": [list(f) for f in filters],
            "pages": pages, "walk": walk}


@st.composite
def gen_case(draw):
    users = USERS[:draw(st.sampled_from([3, 2, 3]))]
    npol = draw(st.integers(1, 2))
    pols = {"q%d" % i: draw(gen_policy()) for i in range(npol)}
    pnames = [None, None, None, "default", "public", "missing"] + sorted(pols) * 3
    n = draw(st.sampled_from([8, 6, 12, 10, 4, 5, 7, 0, 3, 9, 11, 2, 12, 6, 1, 8]))
    objs = [draw(gen_object(users, pnames, i == 0)) for i in range(n)]
    reqs = [draw(gen_request(users, objs, pnames, pols)) for _ in range(draw(st.integers(3, 6)))]
    # the store changes between Locates on the same engine: a new object (must lead the list),
    # a state change, a destroy - and the next Locate must already reflect it
    out = []
    for k, r in enumerate(reqs):
        if k and draw(st.integers(0, 2)) == 0:
            kind = draw(st.sampled_from(["add", "add", "state", "destroy", "regroup", "regroup", "reinfo"]))
            if kind == "add":
                o = draw(gen_object(users, pnames, False))
                o["orphan"] = False
                out.append({"mut": "add", "obj": o})
            elif n:
                step = {"mut": kind, "i": draw(st.integers(0, n - 1))}
                if kind == "state":
                    step["to"] = draw(st.sampled_from(["ACTIVE", "DEACTIVATED", "COMPROMISED"]))
                elif kind in ("regroup", "reinfo"):
                    # one instance of a multi-valued attribute of ONE object gets another value
                    # (objects share group names and application namespaces; each has its own)
                    step["j"] = draw(st.integers(0, 3))
                    step["to"] = draw(st.integers(0, 7))
                out.append(step)
                if kind in ("regroup", "reinfo"):
                    # ... and its owner asks for every value of the pool right away
                    who = objs[step["i"]]["owner"]
                    for val in (OGROUP_POOL if kind == "regroup" else ASI_POOL):
                        attr = "Object Group" if kind == "regroup" else "Application Specific Information"
                        out.append({"who": who, "groups": None, "v": [1, 4],
                                    "f": [[attr, _jsonable_value(attr, val)]], "pages": [], "walk": None})
        if draw(st.integers(0, 5)) == 0:
            o = draw(gen_object(users, pnames, False))
            r = dict(r, batch={"obj": o})
            r.pop("pages", None)
            r.pop("walk", None)
        out.append(r)
    return {"pols": pols, "objs": objs, "reqs": out}


# ------------------------------------------------------------------------------ store building
def _real_section(sec):
    """Generated section -> engine policy section.  Only the Locate entry varies; every other
    operation is Allow Owner so that the owner can drive the lifecycle state."""
    from kmip.core import enums
    out = {}
    for t, variant in sec.items():
        if variant == "no-otype":
            continue
        ent = {op: enums.Policy.ALLOW_OWNER for op in enums.Operation
               if op != enums.Operation.LOCATE}
        if variant != "no-op":
            ent[enums.Operation.LOCATE] = enums.Policy[variant]
        out[H.OT[t]] = ent
    return out


def _real_policy(pol):
    out = {}
    if pol.get("preset") is not None:
        out["preset"] = _real_section(pol["preset"])
    if pol.get("groups") is not None:
        out["groups"] = {g: _real_section(s) for g, s in pol["groups"].items()}
    return out


def _activatable(o, pols):
    """Can the owner (no group information) Activate/Revoke the object?  Built from the spec:
    built-in default policy yes; public/missing no; generated: preset section holds the type."""
    p = o.get("pol")
    if p in (None, "default"):
        return True
    if p in pols:
        pre = pols[p].get("preset")
        return bool(pre) and pre.get(o["t"], "no-otype") != "no-otype"
    return False


def _obj_payload(o, i):
    t = o["t"]
    spec = dict(F.obj_spec(t, "c14-%d" % i))
    if t in ("SymmetricKey", "SplitKey"):
        spec.update(alg=o["alg"], len=o["len"], value=F.det_bytes("c14-%d" % i, o["len"] // 8))
    elif t == "PrivateKey":
        spec.update(len=o["len"], value=F.rsa_pair(o["len"])[0])
    elif t == "PublicKey":
        spec.update(len=o["len"], value=F.rsa_pair(o["len"])[1])
    return spec


def _register_item(o, i):
    attrs = []
    if o["t"] in F.HAS_MASK and o.get("mask") is not None:
        attrs.append(["Cryptographic Usage Mask", o["mask"]])
    for k, nm in enumerate(o.get("names", [])):
        attrs.append(["Name", {"v": nm[0], "t": nm[1]}, k])
    for k, g in enumerate(o.get("grps", [])):
        attrs.append(["Object Group", g, k])
    for k, a in enumerate(o.get("asi", [])):
        attrs.append(["Application Specific Information", {"ns": a[0], "data": a[1]}, k])
    if o.get("sens") is not None:
        attrs.append(["Sensitive", o["sens"]])
    if o.get("pol") is not None:
        attrs.append(["Operation Policy Name", o["pol"]])
    return {"op": "Register", "obj": _obj_payload(o, i), "attrs": attrs}


def _model_of(o, uid, date):
    return {"uid": uid, "date": date, "t": o["t"],
            "owner": None if o.get("orphan") else o["owner"],
            "pol": o.get("pol") or "default",
            "names": [tuple(x) for x in o.get("names", [])],
            "grps": list(o.get("grps", [])), "asi": [tuple(a) for a in o.get("asi", [])],
            "mask": (o.get("mask") or 0) if o["t"] in F.HAS_MASK else None,
            "sens": bool(o.get("sens")), "alg": o.get("alg") if o["t"] in HAS_ALG else None,
            "len": o.get("len") if o["t"] in HAS_ALG else None,
            "ctype": "X_509" if o["t"] == "Certificate" else None, "state": None, "gone": False}


def _add_object(srv, spec, o, i):
    """Register object spec o (number i) as its owner, drive it to its state; -> model object."""
    cli = H.Client(srv, o["owner"], None, (1, 4))
    dt = o.get("dt", 1)
    if i == 0 and dt < 1:
        dt = 1
    H.CLOCK.now += dt
    if H.CLOCK.now <= 0:
        H.CLOCK.now = 1
    r = cli.one(_register_item(o, i), tick=False)
    if r["status"] != "SUCCESS":
        raise core.HarnessError("C14 store: Register failed: %r for %r" % (r, o))
    m = _model_of(o, r["payload"]["uid"], int(H.CLOCK.now))
    if o["t"] != "OpaqueData":
        st_ = o.get("state", "PRE_ACTIVE")
        if not _activatable(o, spec.get("pols", {})):
            st_ = "PRE_ACTIVE"
        m["state"] = st_
        if st_ != "PRE_ACTIVE":
            try:
                _put_state(cli, m["uid"], st_)
            except AssertionError as e:
                raise core.HarnessError("C14 store: state change failed: %s" % (e,))
    m["gone"] = False
    if o.get("gone") and _activatable(o, spec.get("pols", {})) and m["state"] != "ACTIVE":
        r = cli.one({"op": "Destroy", "uid": m["uid"]}, tick=False)
        if r["status"] != "SUCCESS":
            raise core.HarnessError("C14 store: Destroy failed: %r for %r" % (r, o))
        m["gone"] = True
    return m


def build_store(spec):
    """Returns (server, model objects).  A model object holds what the requester of a Locate can
    know about the object: what was registered plus the server-assigned identifier and the clock
    value at registration."""
    policies = H.builtin_policies()
    for k, p in spec.get("pols", {}).items():
        policies[k] = _real_policy(p)
    H.CLOCK.now = BASE_TIME
    srv = H.Server(policies=policies)
    model = []
    try:
        for i, o in enumerate(spec.get("objs", [])):
            model.append(_add_object(srv, spec, o, i))
        orphans = [m["uid"] for m, o in zip(model, spec.get("objs", []))
                   if o.get("orphan") and not m["gone"]]
        if orphans:
            srv.stop()
            con = sqlite3.connect(srv.db)
            try:
                for u in orphans:
                    con.execute("update managed_objects set owner=NULL where uid=?", (int(u),))
                con.commit()
            finally:
                con.close()
            srv.start()
    except BaseException:
        srv.close()
        raise
    return srv, model


def _put_state(cli, uid, state):
    def do(item):
        r = cli.one(item, tick=False)
        assert r["status"] == "SUCCESS", r
    if state in ("ACTIVE", "DEACTIVATED"):
        do({"op": "Activate", "uid": uid})
        if state == "DEACTIVATED":
            do({"op": "Revoke", "uid": uid, "code": "CESSATION_OF_OPERATION"})
    elif state == "COMPROMISED":
        do({"op": "Revoke", "uid": uid, "code": "KEY_COMPROMISE"})


# ------------------------------------------------------------------------------ the model
def _shape(pols, m):
    """Policy shape for (object type, Locate) in the vocabulary of the C03 decision model."""
    p = m["pol"]
    if p == "default":
        return {"preset": DEFAULT_LOCATE[m["t"]], "groups": None}
    if p == "public":
        return {"preset": "no-otype", "groups": None}
    if p not in pols:
        return None
    pol = pols[p]
    pre = pol.get("preset")
    grp = pol.get("groups")
    return {"preset": None if pre is None else pre.get(m["t"], "no-otype"),
            "groups": None if grp is None else {g: s.get(m["t"], "no-otype") for g, s in grp.items()}}


def permitted(pols, m, who, groups):
    """True / False / None (don't care)."""
    shape = _shape(pols, m)
    a = model_allowed(shape, who, groups, m["owner"])
    if a is True and groups and shape is not None and not shape.get("groups"):
        return None       # C03 known class: group information given, policy defines no groups
    return a


def resolve_filters(filters, model):
    """Replace object references by the identifier / date of the referenced object."""
    out = []
    n = len(model)
    for name, val in filters:
        if name == "Unique Identifier":
            if isinstance(val, dict) and "obj" in val:
                val = model[val["obj"] % n]["uid"] if n else "999"
            elif isinstance(val, dict):
                val = val["lit"]
        elif name == "Initial Date":
            if isinstance(val, dict) and "obj" in val:
                val = (model[val["obj"] % n]["date"] if n else BASE_TIME) + val.get("d", 0)
            elif isinstance(val, dict):
                val = val["lit"]
        out.append([name, val])
    return out


def match_one(m, name, val, flags=()):
    """Does object m match the single filter?  True / False / None (don't care).  flags select
    known-defect variants of the model (used only to name the root cause of a deviation)."""
    t = m["t"]
    if name == "Name":
        if isinstance(val, dict):
            v, ty = val["v"], val.get("t", TXT)
        else:
            v, ty = val, TXT
        if "nametype" in flags:
            return ty == TXT and any(x[0] == v for x in m["names"])
        return (v, ty) in m["names"]
    if name == "State":
        return m["state"] is not None and m["state"] == val
    if name == "Object Type":
        return t == val
    if name in ("Cryptographic Algorithm", "Cryptographic Length"):
        if t == "Certificate":
            return None
        key = "alg" if name.endswith("Algorithm") else "len"
        return m[key] is not None and m[key] == val
    if name == "Cryptographic Usage Mask":
        return m["mask"] is not None and (m["mask"] & val) == val
    if name == "Operation Policy Name":
        return m["pol"] == val
    if name == "Object Group":
        return val in m["grps"]
    if name == "Application Specific Information":
        return (val["ns"], val["data"]) in m["asi"]
    if name == "Certificate Type":
        return m["ctype"] is not None and m["ctype"] == val
    if name == "Unique Identifier":
        return m["uid"] == val
    if name == "Sensitive":
        if "sens" in flags:
            return False
        return m["sens"] == val
    if name.startswith(("x-", "y-")):
        return False            # the server cannot store custom attributes: no object has one
    raise ValueError("no model for filter %r" % name)


def match_all(m, filters, flags=()):
    """Conjunction over resolved filters; Initial Date values are taken together."""
    res = True
    dates = [v for n, v in filters if n == "Initial Date"]
    if len(dates) == 1:
        if m["date"] != dates[0]:
            return False
    elif len(dates) == 2:
        if not (min(dates) <= m["date"] <= max(dates)):
            return False
    elif len(dates) > 2:
        res = None
    for n, v in filters:
        if n == "Initial Date":
            continue
        r = match_one(m, n, v, flags)
        if r is False:
            return False
        if r is None:
            res = None
    return res


def model_sets(pols, model, who, groups, filters, flags=()):
    """(must, may): identifiers that have to be returned / that may additionally be returned."""
    must, may = set(), set()
    for m in model:
        if m.get("gone"):
            continue            # destroyed objects no longer exist
        p = permitted(pols, m, who, groups)
        if p is False:
            continue
        f = match_all(m, filters, flags)
        if f is False:
            continue
        if p is True and f is True:
            must.add(m["uid"])
        else:
            may.add(m["uid"])
    return must, may


def conflicting_singletons(filters):
    seen = {}
    for n, v in filters:
        if n in SINGLE_VALUED:
            k = core.canon(v)
            if n in seen and seen[n] != k:
                return True
            seen.setdefault(n, k)
    return False


# ------------------------------------------------------------------------------ running a request
class Unexpressible(Exception):
    pass


def _locate(cli, filters, off=None, mx=None):
    item = {"op": "Locate", "attrs": [list(f) for f in filters]}
    if off is not None:
        item["offset"] = off
    if mx is not None:
        item["max"] = mx
    try:
        r = cli.request([item])
    except Exception as e:                  # the library could not encode the request
        raise Unexpressible("%s: %s" % (type(e).__name__, core.norm_msg(e)))
    if r["items"] is None:
        if r["stage"] == "decode":
            raise Unexpressible("decode %s" % type(r["error"]).__name__)
        return {"status": "REQUEST_ERROR", "reason": type(r["error"]).__name__,
                "message": str(r["error"]), "payload": None}
    return r["items"][0]


def _uids(r):
    return list(r["payload"]["uids"]) if r.get("payload") else []


def _slice(full, off, mx):
    out = full
    if off is not None:
        out = out[off:]
    if mx is not None:
        out = out[:mx]
    return out


def judge_request(srv, pols, model, req):
    """Returns dict(buckets, nontrivial, classes, excluded, bumps)."""
    out = {"buckets": [], "nontrivial": False, "classes": [], "excluded": [], "bumps": []}
    B = out["buckets"]
    who, groups, v = req["who"], req.get("groups"), tuple(req.get("v", (1, 2)))
    filters = resolve_filters(req.get("f", []), model)
    names = [f[0] for f in filters]
    ndates = names.count("Initial Date")
    cli = H.Client(srv, who, groups, v)
    by_uid = {m["uid"]: m for m in model}
    out["classes"] += ["v:%d.%d" % v, "filters:%d" % (len(filters) - max(0, ndates - 1)),
                       "store:%02d" % len(model),
                       "groups:%s" % ("none" if groups is None else len(groups))]
    out["classes"] += sorted(set("attr:" + n for n in names))
    if ndates:
        out["classes"].append("dates:%d" % ndates)

    try:
        r1 = _locate(cli, filters)
    except Unexpressible as e:
        out["excluded"].append("request not expressible by the library codec (%s)" % e)
        out["classes"].append("excluded:not-expressible")
        return out
    if r1["status"] != "SUCCESS":
        if r1["status"] == "REQUEST_ERROR":
            out["excluded"].append("request refused before the Locate handler ran (%s; judged "
                                   "by C02/C13)" % r1["reason"])
            out["classes"].append("excluded:request-level-error")
            return out
        if r1["reason"] == "GENERAL_FAILURE":
            out["excluded"].append("Locate answered General Failure (judged by C13)")
            out["classes"].append("excluded:general-failure")
            return out
        if ndates >= 3:
            out["classes"].append("dontcare:three-dates:rejected")
            return out
        if conflicting_singletons(filters):
            out["classes"].append("dontcare:conflicting-singletons:rejected")
            return out
        if any(n.startswith(("x-", "y-")) for n in names):
            out["classes"].append("dontcare:custom-attribute-filter:rejected")
            return out
        B.append(("C14|locate-failed|%s" % r1["reason"],
                  "request %r -> %r" % (req, {k: r1[k] for k in ("status", "reason", "message")})))
        return out
    full = _uids(r1)
    if ndates >= 3:
        out["classes"].append("dontcare:three-dates:answered")
        return out

    # ---- set equality against the model
    must, may = model_sets(pols, model, who, groups, filters)
    pmust, pmay = model_sets(pols, model, who, groups, [])
    got = set(full)
    if may:
        out["classes"].append("dontcare:object-inclusion")
    if len(got) != len(full):
        B.append(("C14|duplicate-identifiers", "request %r -> %r" % (req, full)))
    missing = must - got
    extra = got - must - may
    if missing or extra:
        B.extend(_name_deviation(cli, pols, model, who, groups, filters, got, req, full))

    # ---- order: non-increasing Initial Date (ties unordered)
    ds = [by_uid[u]["date"] for u in full if u in by_uid]
    if any(a < b for a, b in zip(ds, ds[1:])):
        B.append(("C14|order|not-newest-first",
                  "request %r -> %r with dates %r" % (req, full, ds)))
    if len(set(ds)) < len(ds):
        out["classes"].append("result-has-same-second-objects")
    if ds and sorted(ds, reverse=True) == ds and len(set(ds)) > 1:
        # date order differs from identifier order somewhere?
        ids = [int(u) for u in full if u.isdigit()]
        if any(a < b for a, b in zip(ids, ids[1:])):
            out["classes"].append("result-order-differs-from-id-order")

    # ---- repetition
    try:
        r2 = _locate(cli, filters)
        if r2["status"] != "SUCCESS" or _uids(r2) != full:
            B.append(("C14|repeat|different-answer",
                      "request %r first %r then %r" % (req, full, r2.get("payload") or r2["reason"])))
    except Unexpressible:
        pass

    # ---- pages
    pages = [list(p) for p in req.get("pages", [])]
    k = req.get("walk")
    if k:
        for i in range(0, len(full) + k, k):
            pages.append([i, k])
    cut = False
    for off, mx in pages:
        if (off is not None and off < 0) or (mx is not None and mx < 0):
            out["classes"].append("dontcare:negative-offset-or-maximum")
            continue
        try:
            rp = _locate(cli, filters, off, mx)
        except Unexpressible as e:
            out["excluded"].append("page not expressible by the library codec (%s)" % e)
            continue
        kind = "offset+maximum" if off is not None and mx is not None else \
            "offset-only" if off is not None else "maximum-only"
        if rp["status"] != "SUCCESS":
            if rp["reason"] == "GENERAL_FAILURE":
                out["excluded"].append("Locate page answered General Failure (judged by C13)")
                continue
            B.append(("C14|paging|page-failed|%s" % rp["reason"],
                      "request %r page %r -> %r" % (req, [off, mx], rp["message"])))
            continue
        want = _slice(full, off, mx)
        have = _uids(rp)
        if have != want:
            B.append(("C14|paging|not-the-slice-of-the-full-list|%s" % kind,
                      "request %r full %r page offset=%r max=%r -> %r, expected %r"
                      % (req, full, off, mx, have, want)))
        if full and len(want) < len(full):
            cut = True
        out["classes"].append("page:%s" % kind)
    if k and full:
        out["classes"].append("walk")

    # ---- non-triviality and per-attribute counters
    selective = bool(filters) and bool(must) and len(must | may) < len(pmust | pmay)
    if selective:
        out["classes"].append("nt:filter-selective")
        for n in sorted(set(names)):
            out["bumps"].append("nt_filter/" + n)
    if cut:
        out["classes"].append("nt:page-cuts-list")
    for n in sorted(set(names)):
        if n == "Initial Date":
            single = [f for f in filters if f[0] == n]
        else:
            single = None
        for f in ([single] if single else [[f] for f in filters if f[0] == n]):
            smust, smay = model_sets(pols, model, who, groups, f)
            if smust and len(smust | smay) < len(pmust | pmay):
                out["bumps"].append("selective_alone/" + n)
                break
    out["nontrivial"] = bool(selective or cut)
    if not must and not may:
        out["classes"].append("model:empty")
    elif len(must | may) == len(pmust | pmay):
        out["classes"].append("model:whole-permitted-set")
    return out


def judge_batch(srv, spec, model, ospecs, req):
    """ONE request [Locate(f), Register(new object), Locate(f)] by one requester: the first Locate
    is judged against the store before, the second against the store with the new object (which
    is the newest: if it matches it leads the list).  The model gains the object."""
    out = {"buckets": [], "nontrivial": False, "classes": ["batch:locate-register-locate"],
           "excluded": [], "bumps": []}
    B = out["buckets"]
    pols = spec.get("pols", {})
    who, groups, v = req["who"], req.get("groups"), tuple(req.get("v", (1, 2)))
    filters = resolve_filters(req.get("f", []), model)
    if any(f[0] == "Initial Date" for f in filters) or conflicting_singletons(filters):
        out["classes"].append("excluded:batch-with-date-or-conflicting-filters")
        return out
    o = dict(req["batch"]["obj"], owner=who, orphan=False, gone=False, state="PRE_ACTIVE")
    cli = H.Client(srv, who, groups, v)
    loc = {"op": "Locate", "attrs": [list(f) for f in filters]}
    try:
        r = cli.request([dict(loc), _register_item(o, len(ospecs)), dict(loc)], cont="CONTINUE")
    except Exception as e:
        out["excluded"].append("batch not expressible by the library codec (%s)" % type(e).__name__)
        return out
    items = r["items"]
    if items is None or len(items) != 3:
        out["excluded"].append("batch refused before the handlers ran (judged by C02/C08/C13)")
        return out
    l1, reg, l2 = items
    if reg["status"] == "SUCCESS":
        m = _model_of(o, reg["payload"]["uid"], int(H.CLOCK.now))
        m["state"] = None if o["t"] == "OpaqueData" else "PRE_ACTIVE"
    else:
        m = None
        out["classes"].append("batch:register-refused")
    before = list(model)
    if m is not None:
        model.append(m)
        ospecs.append(o)
    for which, res, mod in (("first", l1, before), ("second", l2, list(model))):
        if res["status"] != "SUCCESS":
            if res["reason"] == "GENERAL_FAILURE":
                out["excluded"].append("Locate in a batch answered General Failure (judged by C13)")
            else:
                B.append(("C14|batch|locate-failed|%s" % res["reason"], "%s Locate of %r: %r"
                          % (which, req, res["message"])))
            continue
        got = _uids(res)
        must, may = model_sets(pols, mod, who, groups, filters)
        if not _fits(set(got), must, may):
            variants = [fl for fl, attr in (("nametype", "Name"), ("sens", "Sensitive"))
                        if attr in [f[0] for f in filters]]
            known = False
            for k in range(1, len(variants) + 1):
                for combo in itertools.combinations(variants, k):
                    m2, y2 = model_sets(pols, mod, who, groups, filters, combo)
                    if _fits(set(got), m2, y2):
                        known = True
                        B.extend((KNOWN_FLAGS[fl], "in a batch: %r" % (req,)) for fl in combo)
            if not known:
                B.append(("C14|batch|%s-locate-is-not-the-model-set" % which,
                          "request %r: %s Locate of [Locate, Register, Locate] -> %r; model must=%r "
                          "may=%r (the Register %s)" % (req, which, got, sorted(must), sorted(may),
                                                        "created %s" % m["uid"] if m else "failed")))
        by_uid = dict((x["uid"], x) for x in mod)
        ds = [by_uid[u]["date"] for u in got if u in by_uid]
        if any(a < b for a, b in zip(ds, ds[1:])):
            B.append(("C14|order|not-newest-first", "batch %r -> %r with dates %r" % (req, got, ds)))
        if which == "second" and m is not None and m["uid"] in must:
            out["nontrivial"] = True
            out["classes"].append("nt:new-object-must-appear-in-second-locate")
    return out


KNOWN_FLAGS = {
    "sens": "C14|filter|Sensitive|never-matches",
    "nametype": "C14|filter|Name|stored-name-type-ignored",
}


def _fits(got, must, may):
    return must <= got and got <= (must | may)


def _name_deviation(cli, pols, model, who, groups, filters, got, req, full):
    """The answer is not the model set: name the root cause.  First the known-defect variants of
    the model, then single-filter probes (diagnosis only; the verdict is already reached)."""
    must, may = model_sets(pols, model, who, groups, filters)
    detail = ("request %r resolved filters %r -> %r; model must=%r may=%r; missing=%r extra=%r"
              % (req, filters, full, sorted(must), sorted(may), sorted(must - got),
                 sorted(got - must - may)))
    names = [f[0] for f in filters]
    relevant = [fl for fl, attr in (("nametype", "Name"), ("sens", "Sensitive")) if attr in names]
    for r in range(1, len(relevant) + 1):
        for combo in itertools.combinations(relevant, r):
            m2, y2 = model_sets(pols, model, who, groups, filters, combo)
            if _fits(got, m2, y2):
                return [(KNOWN_FLAGS[fl], detail) for fl in combo]
    out = []
    # access: the unfiltered list
    try:
        r0 = _locate(cli, [])
        if r0["status"] == "SUCCESS":
            g0 = set(_uids(r0))
            pm, py = model_sets(pols, model, who, groups, [])
            if pm - g0:
                out.append(("C14|access|permitted-object-not-listed", detail))
            if g0 - pm - py:
                out.append(("C14|access|object-listed-for-requester-without-permission", detail))
    except Unexpressible:
        pass
    if out:
        return out
    # single filters (all Initial Date values together)
    probes = []
    dates = [f for f in filters if f[0] == "Initial Date"]
    if dates:
        probes.append(("Initial Date", dates))
    for f in filters:
        if f[0] != "Initial Date":
            probes.append((f[0], [f]))
    for attr, fl in probes:
        try:
            rs = _locate(cli, fl)
        except Unexpressible:
            continue
        if rs["status"] != "SUCCESS":
            continue
        gs = set(_uids(rs))
        sm, sy = model_sets(pols, model, who, groups, fl)
        flag = {"Sensitive": "sens", "Name": "nametype"}.get(attr)
        if flag and not _fits(gs, sm, sy):
            km, ky = model_sets(pols, model, who, groups, fl, (flag,))
            if _fits(gs, km, ky):
                out.append((KNOWN_FLAGS[flag], detail))
                continue
        if sm - gs:
            out.append(("C14|filter|%s|matching-object-missing" % attr, detail))
        if gs - sm - sy:
            out.append(("C14|filter|%s|non-matching-object-returned" % attr, detail))
    if out:
        seen = {}
        for k, d in out:
            seen.setdefault(k, d)
        return list(seen.items())
    if must - got:
        out.append(("C14|conjunction|matching-object-missing", detail))
    if got - must - may:
        out.append(("C14|conjunction|non-matching-object-returned", detail))
    return out


RANK = {"PRE_ACTIVE": 0, "ACTIVE": 1, "DEACTIVATED": 2, "COMPROMISED": 3}


def apply_mutation(srv, spec, model, ospecs, step):
    """Change the store between two Locates (as the owner, through the server) and the model with
    it.  Steps that the lifecycle or the object's policy do not allow are skipped.  -> applied?"""
    pols = spec.get("pols", {})
    if step["mut"] == "add":
        o = step["obj"]
        model.append(_add_object(srv, spec, o, len(ospecs)))
        ospecs.append(o)
        return True
    if not model:
        return False
    i = step["i"] % len(model)
    m, o = model[i], ospecs[i]
    if m["gone"] or o.get("orphan") or not _activatable(o, pols):
        return False
    cli = H.Client(srv, o["owner"], None, (1, 4))

    def do(item):
        r = cli.one(item, tick=False)
        if r["status"] != "SUCCESS":
            raise core.HarnessError("C14 mutation %r failed: %r" % (item, r))
    if step["mut"] == "destroy":
        if m["state"] == "ACTIVE":
            return False
        do({"op": "Destroy", "uid": m["uid"]})
        m["gone"] = True
        return True
    if step["mut"] == "state":
        to, cur = step["to"], m["state"]
        if cur is None or RANK[to] <= RANK[cur]:
            return False
        if to == "ACTIVE":
            do({"op": "Activate", "uid": m["uid"]})
        elif to == "DEACTIVATED":
            if cur == "PRE_ACTIVE":
                do({"op": "Activate", "uid": m["uid"]})
            do({"op": "Revoke", "uid": m["uid"], "code": "CESSATION_OF_OPERATION"})
        else:
            do({"op": "Revoke", "uid": m["uid"], "code": "KEY_COMPROMISE"})
        m["state"] = to
        return True
    if step["mut"] in ("regroup", "reinfo"):
        key, pool, name = ("grps", OGROUP_POOL, "Object Group") if step["mut"] == "regroup" \
            else ("asi", [tuple(a) for a in ASI_POOL], "Application Specific Information")
        cur = m[key]
        new = [x for x in pool if x not in cur]
        if not cur or not new:
            return False
        j = step["j"] % len(cur)
        val = new[step["to"] % len(new)]
        do({"op": "ModifyAttribute", "uid": m["uid"],
            "attr": [name, val if key == "grps" else {"ns": val[0], "data": val[1]}, j]})
        cur[j] = val
        return True
    raise core.HarnessError("unknown mutation %r" % (step,))


def _expand(spec):
    """`large`: N plain objects (kept out of the spec): all alice's but every 29th, which is
    bob's; some registered in the same second; every fiftieth carries the name n1."""
    if not spec.get("large") or spec.get("objs"):
        return spec
    objs = [{"t": "OpaqueData", "owner": "alice" if k % 29 else "bob", "pol": None, "state": "PRE_ACTIVE",
             "names": [["n1", TXT]] if k % 50 == 0 else [], "grps": ["og1"] if k % 2 else [], "asi": [],
             "mask": None, "sens": None, "dt": 1 if k % 3 else 0, "orphan": False, "gone": False}
            for k in range(spec["large"])]
    objs[0]["dt"] = 1
    return dict(spec, objs=objs)


def large_cases(sizes):
    """Stores far larger than the generated ones: the full list, pages around and beyond every
    few hundred positions, and walks in pages of 97 - for an unfiltered and a filtered Locate."""
    out = []
    for n in sizes:
        pages = [[n - 30, 10], [n - 5, None], [None, n - 3], [499, 2], [500, 1], [501, None], [None, 500],
                 [None, 501], [495, 10], [n, 1], [n - 1, 5], [250, 300]]
        reqs = [{"who": "alice", "groups": None, "v": [1, 4], "f": [], "pages": pages, "walk": 97},
                {"who": "alice", "groups": None, "v": [1, 2], "f": [["Object Group", "og1"]],
                 "pages": [[200, None], [None, 255], [255, 3]], "walk": 128},
                {"who": "bob", "groups": None, "v": [2, 0], "f": [], "pages": [[7, 10]], "walk": None}]
        out.append({"pols": {}, "large": n, "objs": [], "reqs": reqs})
    return out


def run_case(spec):
    """Runs every request of the spec against a freshly built store.
    Returns a list with one result dict per request."""
    spec = _expand(spec)
    srv, model = build_store(spec)
    res = []
    ospecs = list(spec.get("objs", []))
    mutated = False
    try:
        for req in spec.get("reqs", []):
            if "mut" in req:
                mutated = apply_mutation(srv, spec, model, ospecs, req) or mutated
                continue
            if "batch" in req:
                out = judge_batch(srv, spec, model, ospecs, req)
                mutated = True
            else:
                out = judge_request(srv, spec.get("pols", {}), model, req)
            if mutated:
                out["classes"].append("store-changed-between-locates")
            ts = sorted(set(m["t"] for m in model))
            out["classes"].append("store-types:%d" % len(ts))
            if any(o.get("orphan") for o in spec.get("objs", [])):
                out["classes"].append("store-has-owner-less-object")
            if any(m["gone"] for m in model):
                out["classes"].append("store-has-destroyed-object")
            if any(o.get("dt", 1) < 0 for o in spec.get("objs", [])[1:]):
                out["classes"].append("store-clock-set-back")
            if any(o.get("dt", 1) == 0 for o in spec.get("objs", [])[1:]):
                out["classes"].append("store-same-second")
            res.append(out)
    finally:
        srv.close()
    return res


def replay(spec):
    seen = {}
    for out in run_case(spec):
        for k, d in out["buckets"]:
            seen.setdefault(k, d)
    return list(seen.items())


# ------------------------------------------------------------------------------ driver
def worker(n, seed, large=()):
    col = core.Collector(PID)
    for spec in large:
        col.bump("stores")
        col.bump("large_stores")
        for req, out in zip(spec["reqs"], run_case(spec)):
            seen = {}
            for k, d in out["buckets"]:
                seen.setdefault(k, d)
            col.record(dict(spec, reqs=[req]), nontrivial=True,
                       classes=sorted(set(out["classes"] + ["large-store"])), buckets=list(seen.items()))

    def one(spec):
        results = run_case(spec)
        col.bump("stores")
        real = [(k, r) for k, r in enumerate(spec["reqs"]) if "mut" not in r]
        for (k, req), out in zip(real, results):
            before = [r for r in spec["reqs"][:k] if "mut" in r]
            # a Locate before a change matters only if the engine keeps something: keep the
            # first earlier request too when the store changed in between
            first = [r for r in spec["reqs"][:k] if "mut" not in r][:1] if before else []
            single = {"pols": spec["pols"], "objs": spec["objs"],
                      "reqs": (first + before if not first else
                               [x for x in spec["reqs"][:k] if "mut" in x or x is first[0]]) + [req]}
            for reason in out["excluded"]:
                col.exclude(reason)
            for b in out["bumps"]:
                col.bump(b)
            seen = {}
            for k, d in out["buckets"]:
                seen.setdefault(k, d)
            col.record(single, nontrivial=out["nontrivial"], classes=sorted(set(out["classes"])),
                       buckets=list(seen.items()))

    core.draw_examples(gen_case(), n, seed, one)
    return col


def run(ctx):
    F.rsa_pair(1024)
    F.rsa_pair(2048)            # generated once in the parent, inherited by the forked shards
    F.obj_spec("Certificate")
    stores = ctx.n(1600, 32000)
    per = stores // NSHARDS
    large = large_cases([540] if ctx.quick else [540, 1040, 1600, 519])
    dicts = core.run_sharded("vlib.props.c14", "worker",
                             [(per, core.derive_seed(ctx.seed, "c14", i), large[i::NSHARDS])
                              for i in range(NSHARDS)])
    col = core.merged(PID, dicts)
    col.extra["exhaustive"] = False
    return col
