"""C18 - Policies in force follow the policy files; built-in policies are untouchable.

Three generators, one oracle.

(i)   EXHAUSTIVE event sequences (write document / break / remove, scan after every event) over
      3 files x {4 documents over the names p,q + 1 document that also tries to define
      `default`/`public` + bad JSON + remove} to depth 3 (quick) / 4 (thorough), plus a 2-file
      sub-alphabet one level deeper (the shortest stale-cache scenario needs 4 events).
(i')  the same kind of words explored level by level to greater depth (8 / 11 events), a word
      being extended only if the situation it leads to has not been reached before
      (explore_frontier): long take-over / drop / re-take / remove chains over two or three files.
(ii)  Hypothesis sequences: up to 6 files, 5 names, several events between scans, touch (same
      content, new mtime), repair (last valid content written back), semantic breaks that carry
      a valid extra policy (rejected *as a whole*), non-UTF-8 files, file names in any sort order.
(iii) Documents for the parser: every documented shape, and one defect at every position
      (enumerated over templates, then Hypothesis); each document is also pushed through a
      monitor that already holds a loaded policy.

Oracle = reference model written from the property statement (class Model) + an independent
re-implementation of the documented policy-file grammar (ref_parse).  The code under test is
only observed: contents of the policy store after scan_policies(), and result / exception of
read_policy_from_file().

Where the statement is silent the model accepts every outcome:
 * files (re)loaded in the SAME scan have no defined order  -> any of them may win a name;
 * a file re-written with unchanged (effective) content may or may not count as a new load;
 * duplicate JSON keys (RFC 8259: behaviour unpredictable)   -> reject, first-wins or last-wins;
 * a falsy non-object where an (empty) section table is expected ("preset": null)
                                                             -> reject or treat as empty;
 * UTF-8 BOM                                                  -> reject or ignore it;
 * empty tables (policy, section, object type without entries) grant nothing (docs: uncovered
   means Disallow All) -> compared after pruning empty tables, a name whose definition is empty
   may be present-and-empty or absent;
 * a file removed and re-created *broken* between two scans is unobservable for any polling
   monitor -> such cases are cut and counted as excluded.
"""
import copy
import itertools
import json
import logging
import os
import re
import shutil
import signal
import tempfile

from vlib import core

PID = "C18"
LEVEL = "exploration"
RULE = ("sequence cases: exhaustive words over {write doc, break, remove} x files with a scan "
        "after every event, plus Hypothesis sequences with several events between scans; a "
        "sequence is non-trivial iff at some scan a name is defined by >=2 files and a file "
        "currently winning that name is then removed, reloaded without the name, or broken. "
        "document cases: one JSON document each; non-trivial iff valid with >=1 permission "
        "entry, or invalid/open at a position inside a well-formed JSON document (not plain bad "
        "JSON / bad encoding / wrong type at the top). distinct = distinct spec hash")
ASSUMPTIONS = [
    "the monitor object is driven directly (scan_policies()), never started as a process; the "
    "store is a dict whose keys() returns a list (as a Manager DictProxy does), seeded with a "
    "deep copy of kmip.core.policy.policies as server.py does",
    "the harness owns time: every write sets mtime to a strictly increasing integer, so every "
    "write is visible to an mtime-based monitor; scans are the only observation points",
    "object type / operation / permission names are taken from the KMIP specification tables "
    "(hard-coded here); kmip.core.enums is only used to read back .name of result keys",
    "stdlib json (with duplicate-key detection) is trusted to decide what is well-formed JSON",
    "a document that defines a reserved name is otherwise valid: its other policies load "
    "(docs: reserved policies cannot be overridden; statement lists reserved names apart from "
    "the reasons for rejecting a file)",
]

# ------------------------------------------------------------------ documented grammar (reference)
OBJECT_TYPES = ("CERTIFICATE", "SYMMETRIC_KEY", "PUBLIC_KEY", "PRIVATE_KEY", "SPLIT_KEY",
                "TEMPLATE", "SECRET_DATA", "OPAQUE_DATA", "PGP_KEY", "CERTIFICATE_REQUEST")
OPERATIONS = tuple((
    "CREATE CREATE_KEY_PAIR REGISTER REKEY DERIVE_KEY CERTIFY RECERTIFY LOCATE CHECK GET "
    "GET_ATTRIBUTES GET_ATTRIBUTE_LIST ADD_ATTRIBUTE MODIFY_ATTRIBUTE DELETE_ATTRIBUTE "
    "OBTAIN_LEASE GET_USAGE_ALLOCATION ACTIVATE REVOKE DESTROY ARCHIVE RECOVER VALIDATE QUERY "
    "CANCEL POLL NOTIFY PUT REKEY_KEY_PAIR DISCOVER_VERSIONS ENCRYPT DECRYPT SIGN "
    "SIGNATURE_VERIFY MAC MAC_VERIFY RNG_RETRIEVE RNG_SEED HASH CREATE_SPLIT_KEY JOIN_SPLIT_KEY "
    "IMPORT EXPORT LOG LOGIN LOGOUT DELEGATED_LOGIN ADJUST_ATTRIBUTE SET_ATTRIBUTE "
    "SET_ENDPOINT_ROLE PKCS_11 INTEROP REPROVISION").split())
PERMISSIONS = ("ALLOW_ALL", "ALLOW_OWNER", "DISALLOW_ALL")
SECTIONS = ("preset", "groups")
RESERVED = ("default", "public")


class _Bad(Exception):
    pass


def _ref_table(v, where):
    """{OBJECT_TYPE: {OPERATION: PERMISSION}}"""
    if not isinstance(v, dict):
        raise _Bad("wrong-type@" + where)
    out = {}
    for t, ops in v.items():
        if t not in OBJECT_TYPES:
            raise _Bad("unknown-object-type")
        if not isinstance(ops, dict):
            raise _Bad("wrong-type@operations")
        row = {}
        for op, perm in ops.items():
            if op not in OPERATIONS:
                raise _Bad("unknown-operation")
            if not isinstance(perm, str):
                raise _Bad("wrong-type@permission")
            if perm not in PERMISSIONS:
                raise _Bad("unknown-permission")
            row[op] = perm
        out[t] = row
    return out


def _ref_document(j, notes):
    """name -> {'preset': table, 'groups': {group: table}}; the flat form is a preset table."""
    if not isinstance(j, dict):
        raise _Bad("wrong-type@top")
    out = {}
    for name, pol in j.items():
        if not isinstance(pol, dict):
            raise _Bad("wrong-type@policy")
        keys = set(pol)
        if not keys:
            out[name] = {}
        elif keys <= set(SECTIONS):
            d = {}
            if "preset" in pol:
                v = pol["preset"]
                if not isinstance(v, dict) and not v:
                    notes.append("falsy-non-object-section")
                else:
                    d["preset"] = _ref_table(v, "preset")
            if "groups" in pol:
                g = pol["groups"]
                if not isinstance(g, dict) and not g:
                    notes.append("falsy-non-object-section")
                elif not isinstance(g, dict):
                    raise _Bad("wrong-type@groups")
                else:
                    d["groups"] = dict((gn, _ref_table(gv, "group")) for gn, gv in g.items())
            out[name] = d
        elif keys <= set(OBJECT_TYPES):
            out[name] = {"preset": _ref_table(pol, "policy")}
        elif keys & set(SECTIONS) and keys - set(SECTIONS) <= set(OBJECT_TYPES):
            raise _Bad("mixed-sections")
        else:
            raise _Bad("unknown-section")
    return out


def prune(v):
    """Drop empty tables (they grant nothing)."""
    if isinstance(v, dict):
        out = dict((k, prune(x)) for k, x in v.items())
        return dict((k, x) for k, x in out.items() if x != {})
    return v


def ref_parse(raw):
    """raw bytes -> {'status': valid|invalid|open, 'value', 'alts', 'reason'}.
    valid: must parse to value.  invalid: must raise ValueError.  open: ValueError or any alt."""
    try:
        text = raw.decode("utf-8")
    except UnicodeDecodeError:
        return {"status": "invalid", "reason": "non-utf8"}
    notes = []
    if text.startswith(u"﻿"):
        notes.append("utf8-bom")
        text = text[1:]
    dups = []

    def last_wins(pairs):
        d = {}
        for k, v in pairs:
            if k in d:
                dups.append(k)
            d[k] = v
        return d

    def first_wins(pairs):
        d = {}
        for k, v in pairs:
            d.setdefault(k, v)
        return d

    try:
        j = json.loads(text, object_pairs_hook=last_wins)
    except (ValueError, RecursionError):
        return {"status": "invalid", "reason": "bad-json"}
    variants = [j]
    if dups:
        notes.append("duplicate-keys")
        variants.append(json.loads(text, object_pairs_hook=first_wins))
    alts, reason = [], None
    for v in variants:
        try:
            alts.append(_ref_document(v, notes))
        except _Bad as e:
            reason = str(e)
    if not notes:
        if alts:
            return {"status": "valid", "value": alts[0], "json": j}
        return {"status": "invalid", "reason": reason, "json": j}
    return {"status": "open", "alts": alts, "reason": "+".join(sorted(set(notes))), "json": j}


# ------------------------------------------------------------------ observing the code under test
class _Shape(Exception):
    pass


def _plain_table(tm):
    from kmip.core import enums
    if not isinstance(tm, dict):
        raise _Shape("table is %s" % type(tm).__name__)
    out = {}
    for t, ops in tm.items():
        if not isinstance(t, enums.ObjectType) or not isinstance(ops, dict):
            raise _Shape("object type key %r / value %s" % (t, type(ops).__name__))
        row = {}
        for op, perm in ops.items():
            if not isinstance(op, enums.Operation) or not isinstance(perm, enums.Policy):
                raise _Shape("operation %r -> %r" % (op, perm))
            row[op.name] = perm.name
        out[t.name] = row
    return out


def plain_def(pol):
    """Parsed definition (enum-keyed) -> the reference representation (names)."""
    if not isinstance(pol, dict) or not set(pol) <= set(SECTIONS):
        raise _Shape("definition %r" % (pol,))
    out = {}
    if "preset" in pol:
        out["preset"] = _plain_table(pol["preset"])
    if "groups" in pol:
        if not isinstance(pol["groups"], dict):
            raise _Shape("groups is %s" % type(pol["groups"]).__name__)
        out["groups"] = dict((g, _plain_table(tm)) for g, tm in pol["groups"].items())
    return out


class Store(dict):
    """A dict that answers keys()/items()/values() with lists, like the DictProxy the server uses."""

    def keys(self):
        return list(dict.keys(self))

    def items(self):
        return list(dict.items(self))

    def values(self):
        return list(dict.values(self))


_quiet = [False]
_pristine = [None]


def _make_monitor(directory):
    from kmip.core import policy as cpolicy
    from kmip.services.server import monitor
    if not _quiet[0]:
        lg = logging.getLogger("kmip")
        lg.addHandler(logging.NullHandler())
        lg.propagate = False
        _quiet[0] = True
    if _pristine[0] is None:       # never handed to the code under test
        _pristine[0] = copy.deepcopy(cpolicy.policies)
    pristine = _pristine[0]
    store = Store()
    for k, v in cpolicy.policies.items():   # a fresh deep copy (3 levels of tables, enum leaves)
        store[k] = dict((sec, dict((t, dict(ops)) for t, ops in tm.items()))
                        for sec, tm in v.items())
    if store != pristine:
        raise core.HarnessError("built-in policy table has an unexpected shape")
    old = [(s, signal.getsignal(s)) for s in (signal.SIGINT, signal.SIGTERM)]
    try:
        mon = monitor.PolicyDirectoryMonitor(directory, store, live_monitoring=False)
    finally:
        for s, h in old:
            try:
                signal.signal(s, h)
            except (ValueError, TypeError):
                pass
    return mon, store, pristine


def _exc_key(exc):
    """A non-ValueError out of the parser is the same root cause whether it is seen at
    read_policy_from_file or escaping scan_policies: same key."""
    site = core.exc_site(exc)
    phase = "doc" if site.startswith("core/policy.py") else "scan"
    return core.exc_bucket(PID, phase, exc)


def _builtin_failures(store, pristine):
    out = []
    for b in RESERVED:
        if b not in store:
            out.append(("C18|builtin|removed", "built-in policy %r is gone from the store" % b))
        elif store[b] != pristine[b]:
            out.append(("C18|builtin|replaced",
                        ("built-in policy %r changed: %r" % (b, store[b]))[:600]))
    return out


K_STALE_KNOWN = "C18|store|definition-of-shadowed-file-resurrected-after-it-dropped-the-name"


# ------------------------------------------------------------------ reference model
class Model(object):
    def __init__(self):
        self.seen = {}      # file -> mtime at the last scan
        self.eff = {}       # file -> {name: definition}   result of its last successful load
        self.num = {}       # file -> [lo, hi] load number (interval: same-content rewrite)
        self.epoch = 0
        self.ever = {}      # (file, name) -> canon definitions this file ever had in force
        self.past = {}      # name -> canon definitions ever in force by any file
        self.risk = {}      # name -> canon definitions matching the known stale-cache signature
        self.tainted = set()
        self.lastbad = set()  # files whose last load attempt was rejected

    def scan(self, disk):
        """Advance the model to the directory state `disk` {file: (raw, mtime)}; returns labels."""
        labels = set()
        self.epoch += 1
        pre = dict((f, dict(c)) for f, c in self.eff.items())
        prewin = self.winners_by_name()
        touched = {}
        for f in [f for f in self.seen if f not in disk]:
            labels.add("ev:file-removed")
            touched[f] = "removed"
            self.eff.pop(f, None)
            self.num.pop(f, None)
            self.lastbad.discard(f)
        dropped = []
        loaded_names = {}
        for f in sorted(disk):
            raw, mt = disk[f]
            if self.seen.get(f) == mt:
                continue
            labels.add("ev:new-file" if f not in self.seen else "ev:edit")
            r = ref_parse(raw)
            if r["status"] == "invalid":
                labels.add("ev:rejected:" + r["reason"])
                touched[f] = "broken"
                self.lastbad.add(f)
                continue
            if r["status"] == "open":
                raise core.HarnessError("open-ended document in an event sequence")
            if f in self.lastbad:
                labels.add("ev:repair")
                self.lastbad.discard(f)
            full = r["value"]
            if any(n in RESERVED for n in full):
                labels.add("ev:reserved-name-in-file")
            new = {}
            for n, d in full.items():
                if n in RESERVED:
                    continue
                if prune(d) == {}:
                    self.tainted.add(n)       # defined-but-empty: presence is open
                    continue
                new[n] = prune(d)
            old = self.eff.get(f)
            if old is not None and old == new:
                labels.add("ev:same-content-rewrite")
                self.num[f][1] = self.epoch
                touched[f] = "same"
            else:
                for n in (old or {}):
                    if n not in new:
                        dropped.append((f, n))
                self.eff[f] = new
                self.num[f] = [self.epoch, self.epoch]
                touched[f] = "loaded"
            for n, d in new.items():
                c = core.canon(d)
                self.ever.setdefault((f, n), set()).add(c)
                self.past.setdefault(n, set()).add(c)
                loaded_names.setdefault(n, set()).add(f)
        if any(len(fs) > 1 for fs in loaded_names.values()):
            labels.add("ev:same-name-loaded-from-2-files-in-one-scan")
        if any(len(self.definers(n)) >= 3 for n in self.names()):
            labels.add("ev:name-defined-by-3-or-more-files")
        # signature of the known stale-cache defect: a file reloaded without a name while some
        # other file defines that name (before or after this scan)
        for f, n in dropped:
            others = [g for g in set(pre) | set(self.eff) if g != f
                      and (n in pre.get(g, {}) or n in self.eff.get(g, {}))]
            if others:
                self.risk.setdefault(n, set()).update(self.ever.get((f, n), ()))
        # non-triviality: what happened to files that were winning a contested name
        for n, (definers, win) in prewin.items():
            if len(definers) < 2:
                continue
            for f in win:
                how = touched.get(f)
                if how == "removed":
                    labels.add("nt:shadowing-file-removed")
                elif how == "broken":
                    labels.add("nt:shadowing-file-broken")
                elif how == "loaded" and n not in self.eff.get(f, {}):
                    labels.add("nt:shadowing-file-dropped-name")
                else:
                    continue
                if self.accepted(n):
                    labels.add("ev:earlier-definition-must-be-in-force")
                else:
                    labels.add("ev:name-must-be-gone")
        self.seen = dict((f, mt) for f, (raw, mt) in disk.items())
        return labels

    def definers(self, n):
        return dict((f, c[n]) for f, c in self.eff.items() if n in c)

    def winners(self, n):
        d = self.definers(n)
        return [f for f in d
                if not any(g != f and self.num[g][0] > self.num[f][1] for g in d)]

    def winners_by_name(self):
        names = set()
        for c in self.eff.values():
            names.update(c)
        return dict((n, (self.definers(n), self.winners(n))) for n in names)

    def accepted(self, n):
        d = self.definers(n)
        return set(core.canon(d[f]) for f in self.winners(n))

    def names(self):
        s = set()
        for c in self.eff.values():
            s.update(c)
        return s

    def describe(self):
        return "; ".join("%s#%s=%s" % (f, self.num[f], sorted(self.eff[f]))
                         for f in sorted(self.eff))

    def compare(self, store, pristine):
        """-> (failures [(key, detail)], fatal: bool)."""
        fails = _builtin_failures(store, pristine)
        if fails:
            return fails, True
        for n in sorted((set(store) - set(RESERVED)) | self.names(), key=str):
            if n in self.tainted:
                continue
            acc = self.accepted(n)
            if n not in store:
                if acc:
                    return [("C18|store|defined-name-missing",
                             "policy %r is defined by %s but is not in force [%s]"
                             % (n, sorted(self.definers(n)), self.describe()))], True
                continue
            try:
                v = core.canon(prune(plain_def(store[n])))
            except _Shape as e:
                return [("C18|store|malformed-definition", "policy %r: %s" % (n, e))], True
            if v in acc:
                continue
            det = ("policy %r in force = %s; accepted = %s; files [%s]"
                   % (n, v, sorted(acc) or "absent", self.describe()))
            if v in self.risk.get(n, ()):
                self.tainted.add(n)
                fails.append((K_STALE_KNOWN, det))
                continue
            if v in set(core.canon(d) for d in self.definers(n).values()):
                return fails + [("C18|store|wrong-file-wins", det)], True
            if v in self.past.get(n, ()):
                return fails + [("C18|store|stale-definition-in-force", det)], True
            if not acc:
                return fails + [("C18|store|undefined-name-present", det)], True
            return fails + [("C18|store|foreign-definition", det)], True
        return fails, False


# ------------------------------------------------------------------ one sequence case
_FNAME = re.compile(r"^[A-Za-z0-9_.-]{1,40}\.json$")
T0 = 1500000000


def _raw_of(ev):
    if "hex" in ev:
        return bytes.fromhex(ev["hex"])
    return ev["text"].encode("utf-8")


def _norm_times(o, ranks, strip=""):
    return _norm_times_(_strip_dir(o, strip) if strip else o, ranks)


def _strip_dir(o, prefix):
    if isinstance(o, str):
        return o.replace(prefix, "")
    if isinstance(o, dict):
        return dict((_strip_dir(k, prefix), _strip_dir(v, prefix)) for k, v in o.items())
    if isinstance(o, (list, tuple)):
        return [_strip_dir(v, prefix) for v in o]
    if isinstance(o, (set, frozenset)):
        return set(_strip_dir(v, prefix) for v in o)
    return o


def _norm_times_(o, ranks):
    """JSON-able copy of o in which every harness time stamp / load number is replaced by its
    rank (absolute values differ between words that reach the same situation)."""
    if isinstance(o, bool) or o is None or isinstance(o, str):
        return o
    if isinstance(o, (int, float)):
        return "#%d" % ranks[o] if o in ranks else o
    if isinstance(o, bytes):
        return o.hex()
    if isinstance(o, dict):
        return sorted(((str(k), _norm_times_(k, ranks)), _norm_times_(v, ranks))
                      for k, v in o.items())
    if isinstance(o, (list, tuple)):
        return [_norm_times_(v, ranks) for v in o]
    if isinstance(o, (set, frozenset)):
        return sorted(str(_norm_times_(v, ranks)) for v in o)
    if hasattr(o, "name") and hasattr(o, "value"):
        return "E:" + str(o.name)
    return repr(o)


def _times_in(o, acc):
    if isinstance(o, bool):
        return
    if isinstance(o, (int, float)):
        if o >= T0:
            acc.add(o)
    elif isinstance(o, dict):
        for k, v in o.items():
            _times_in(k, acc)
            _times_in(v, acc)
    elif isinstance(o, (list, tuple, set, frozenset)):
        for v in o:
            _times_in(v, acc)


def _state_key(mon, store, model, disk, directory):
    """Abstract state after a word: directory contents, everything the monitor object holds
    (all instance attributes but its logger/event), the store, and the part of the model its
    verdicts depend on.  Only used to prune words that lead to a situation already expanded."""
    mvars = dict((k, v) for k, v in vars(mon).items()
                 if not k.startswith("_") and k not in ("logger", "halt_trigger", "policy_store",
                                                        "policy_directory"))
    impl = [mvars, dict(store), dict((f, raw) for f, (raw, mt) in disk.items()),
            dict((f, mt) for f, (raw, mt) in disk.items())]
    acc = set()
    _times_in(impl, acc)
    ranks = dict((v, i) for i, v in enumerate(sorted(acc)))
    epochs = sorted(set(x for iv in model.num.values() for x in iv))
    eranks = dict((v, i) for i, v in enumerate(epochs))
    mod = [model.eff, dict((f, [eranks[a], eranks[b]]) for f, (a, b) in model.num.items()),
           sorted(model.tainted), sorted(model.lastbad), sorted(model.seen)]
    return core.canon([_norm_times(impl, ranks, directory.rstrip("/") + "/"),
                       _norm_times(mod, {})])


def run_seq(spec, base, want_state=False):
    """Execute one sequence spec.  -> dict(buckets, labels, nontrivial, excluded)."""
    fnames = spec["fnames"]
    events = spec["events"]
    auto = bool(spec.get("auto_scan"))
    for f in fnames:
        if not isinstance(f, str) or not _FNAME.match(f):
            raise core.HarnessError("bad file name in spec: %r" % (f,))
    if len(set(fnames)) != len(fnames):
        raise core.HarnessError("duplicate file names in spec")
    res = {"buckets": [], "labels": set(), "nontrivial": False, "excluded": None, "scans": 0}
    d = tempfile.mkdtemp(dir=base)
    try:
        from kmip.core import policy as cpolicy
        mon, store, pristine = _make_monitor(d)
        model = Model()
        disk = {}
        lastvalid = {}
        clock = [T0]
        removed_in_window = set()
        gone = {}           # file -> (content, mtime) it had when it was removed
        state = {"dirty": False, "dead": False}

        def write(f, raw):
            path = os.path.join(d, f)
            with open(path, "wb") as fh:
                fh.write(raw)
            clock[0] += 1
            os.utime(path, (clock[0], clock[0]))
            disk[f] = (raw, clock[0])
            state["dirty"] = True

        def scan(check_idle=False):
            # a polling monitor cannot see "removed, then re-created broken" between two scans
            for f in removed_in_window:
                if f in disk and f in model.eff and ref_parse(disk[f][0])["status"] != "valid":
                    res["excluded"] = ("file removed and re-created broken between two scans "
                                       "(unobservable by polling)")
                    return False
            removed_in_window.clear()
            before = dict(store) if check_idle else None
            res["scans"] += 1
            try:
                mon.scan_policies()
            except Exception as e:   # the monitor process would be dead now
                res["buckets"].append((_exc_key(e), "scan_policies raised %s: %s [%s]"
                                       % (type(e).__name__, e, model.describe())))
                state["dead"] = True
                return False
            if check_idle:
                if dict(store) != before:
                    res["buckets"].append(("C18|store|changes-without-file-change",
                                           "a scan with no file event changed the store"))
                    return False
                return True
            labels = model.scan(disk)
            res["labels"].update(labels)
            state["dirty"] = False
            fails, fatal = model.compare(store, pristine)
            res["buckets"].extend(fails)
            return not fatal

        ok = True
        for ev in events:
            op = ev["op"]
            if op == "s":
                ok = scan()
            else:
                f = fnames[ev["f"]]
                if op == "w":
                    raw = _raw_of(ev)
                    write(f, raw)
                    if ref_parse(raw)["status"] == "valid":
                        lastvalid[f] = raw
                elif op == "r":
                    if f in disk:
                        os.remove(os.path.join(d, f))
                        gone[f] = disk[f]
                        del disk[f]
                        state["dirty"] = True
                        if f in model.seen:
                            removed_in_window.add(f)
                elif op == "b":      # the removed file comes back as it was: same content, SAME
                    if f not in disk and f in gone:      # mtime (mv away and back, cp -p, rsync)
                        raw, mt = gone.pop(f)
                        path = os.path.join(d, f)
                        with open(path, "wb") as fh:
                            fh.write(raw)
                        os.utime(path, (mt, mt))
                        disk[f] = (raw, mt)
                        state["dirty"] = True
                elif op == "t":      # same content, new mtime
                    if f in disk:
                        write(f, disk[f][0])
                elif op == "fix":    # write back the last valid content this file had
                    if f in lastvalid:
                        write(f, lastvalid[f])
                else:
                    raise core.HarnessError("unknown op %r" % (op,))
                if auto:
                    ok = scan()
            if not ok:
                break
        if ok and state["dirty"]:
            ok = scan()
        if ok and want_state and not res["buckets"] and not res["excluded"]:
            res["state"] = _state_key(mon, store, model, disk, d)
        if ok:
            ok = scan(check_idle=True)
        if not state["dead"] and cpolicy.policies != pristine:
            res["buckets"].append(("C18|builtin|module-table-mutated",
                                   "kmip.core.policy.policies was modified"))
        res["nontrivial"] = any(l.startswith("nt:") for l in res["labels"])
        return res
    finally:
        shutil.rmtree(d, ignore_errors=True)


# ------------------------------------------------------------------ one document case
BASELINE = b'{"base": {"preset": {"SYMMETRIC_KEY": {"GET": "ALLOW_OWNER"}}}}'
BASE_DEF = {"preset": {"SYMMETRIC_KEY": {"GET": "ALLOW_OWNER"}}}


def _shape_labels(j):
    out = set()
    if not isinstance(j, dict):
        return out
    if not j:
        out.add("empty-document")
    if len(j) > 1:
        out.add("several-policies")
    for pol in j.values():
        if not isinstance(pol, dict):
            continue
        k = set(pol)
        if not k:
            out.add("empty-policy")
        elif k == {"preset"}:
            out.add("preset-only")
        elif k == {"groups"}:
            out.add("groups-only")
        elif k == {"preset", "groups"}:
            out.add("preset+groups")
        elif k <= set(OBJECT_TYPES):
            out.add("flat")
    if any(n in RESERVED for n in j):
        out.add("reserved-name")
    return out


def _count_perms(v):
    n = 0
    if isinstance(v, dict):
        for x in v.values():
            n += _count_perms(x)
    elif isinstance(v, str):
        n += 1
    return n


def run_doc(spec, base):
    raw = _raw_of(spec)
    res = {"buckets": [], "labels": set(), "nontrivial": False}
    r = ref_parse(raw)
    st = r["status"]
    if st == "valid":
        for s in _shape_labels(r["json"]) or ["other"]:
            res["labels"].add("doc:valid:" + s)
        res["nontrivial"] = _count_perms(r["value"]) > 0
        alts = [r["value"]]
    elif st == "invalid":
        res["labels"].add("doc:invalid:" + r["reason"])
        res["nontrivial"] = r["reason"] not in ("bad-json", "non-utf8", "wrong-type@top")
        alts = []
    else:
        res["labels"].add("doc:open:" + r["reason"])
        res["nontrivial"] = True
        alts = r["alts"]
    want = [core.canon(prune(a)) for a in alts]
    d = tempfile.mkdtemp(dir=base)
    try:
        from kmip.core import policy as cpolicy
        # --- the parser on its own
        path = os.path.join(d, "doc.json")
        with open(path, "wb") as fh:
            fh.write(raw)
        got = None
        try:
            got = cpolicy.read_policy_from_file(path)
            outcome = "value"
        except ValueError:
            outcome = "ValueError"
        except Exception as e:
            outcome = "other"
            res["buckets"].append((_exc_key(e), "read_policy_from_file raised %s: %s on a "
                                   "document that is %s (%s)"
                                   % (type(e).__name__, e, st, r.get("reason", ""))))
        if outcome == "ValueError" and st == "valid":
            res["buckets"].append(("C18|doc|valid-document-rejected",
                                   "ValueError for a document in a documented shape (%s)"
                                   % ",".join(sorted(_shape_labels(r["json"])))))
        elif outcome == "value":
            try:
                if not isinstance(got, dict):
                    raise _Shape("result is %s" % type(got).__name__)
                g = core.canon(prune(dict((n, plain_def(p)) for n, p in got.items())))
            except _Shape as e:
                g = None
                res["buckets"].append(("C18|doc|result-not-enum-typed", str(e)))
            if g is not None and st == "invalid":
                res["buckets"].append(("C18|doc|invalid-document-accepted|" + r["reason"],
                                       "parsed to %s" % g))
            elif g is not None and g not in want:
                res["buckets"].append(("C18|doc|wrong-parse-result",
                                       "parsed to %s, reference %s" % (g, want)))
        os.remove(path)
        # --- the same document arriving in a directory whose file already loaded a policy
        mon, store, pristine = _make_monitor(d)
        path = os.path.join(d, "a.json")

        def put(data, t):
            with open(path, "wb") as fh:
                fh.write(data)
            os.utime(path, (t, t))

        def in_force():
            return core.canon(prune(dict((n, plain_def(p)) for n, p in store.items()
                                         if n not in RESERVED)))
        try:
            put(BASELINE, T0 + 1)
            mon.scan_policies()
            if in_force() != core.canon({"base": BASE_DEF}):
                raise core.HarnessError("baseline policy did not load: %r" % (dict(store),))
            put(raw, T0 + 2)
            try:
                mon.scan_policies()
            except Exception as e:
                res["buckets"].append((_exc_key(e), "scan_policies raised %s: %s on a document "
                                       "that is %s (%s)" % (type(e).__name__, e, st,
                                                            r.get("reason", ""))))
            else:
                res["buckets"].extend(_builtin_failures(store, pristine))
                undisturbed = core.canon({"base": BASE_DEF})
                ok = [core.canon(prune(dict((n, p) for n, p in a.items() if n not in RESERVED)))
                      for a in alts]
                if st != "valid":
                    ok.append(undisturbed)
                try:
                    now = in_force()
                except _Shape as e:
                    now = None
                    res["buckets"].append(("C18|store|malformed-definition", str(e)))
                if now is not None and now not in ok:
                    if st == "invalid":
                        res["buckets"].append(("C18|doc-scan|rejected-file-disturbed-the-store",
                                               "in force %s after a %s document" %
                                               (now, r["reason"])))
                    else:
                        res["buckets"].append(("C18|doc-scan|store-differs-from-document",
                                               "in force %s, accepted %s" % (now, ok)))
        except _Shape as e:
            res["buckets"].append(("C18|store|malformed-definition", str(e)))
        # de-duplicate (parser and scan phase share keys for the same root cause)
        seen, out = set(), []
        for k, det in res["buckets"]:
            if k not in seen:
                seen.add(k)
                out.append((k, det))
        res["buckets"] = out
        return res
    finally:
        shutil.rmtree(d, ignore_errors=True)


# ------------------------------------------------------------------ alphabets for part (i)
def _j(o):
    return json.dumps(o, sort_keys=True)


DOCS = [
    _j({"p": {"preset": {"SYMMETRIC_KEY": {"GET": "ALLOW_ALL"}}}}),
    _j({"p": {"groups": {"g1": {"SYMMETRIC_KEY": {"GET": "ALLOW_OWNER"}}}},
        "q": {"preset": {"CERTIFICATE": {"LOCATE": "ALLOW_ALL"}}}}),
    _j({"q": {"preset": {"CERTIFICATE": {"LOCATE": "DISALLOW_ALL"}},
              "groups": {"g2": {"CERTIFICATE": {"GET": "ALLOW_ALL"}}}}}),
    _j({"p": {"SECRET_DATA": {"DESTROY": "ALLOW_OWNER"}},
        "q": {"PUBLIC_KEY": {"GET": "ALLOW_ALL"}}}),
]
DOC_RESERVED = _j({"default": {"preset": {"SYMMETRIC_KEY": {"GET": "ALLOW_ALL"}}},
                   "public": {"TEMPLATE": {"DESTROY": "ALLOW_ALL"}},
                   "p": {"preset": {"OPAQUE_DATA": {"GET": "ALLOW_ALL"}}}})
BAD_JSON = DOCS[0][:-1]


ALPHABETS = {
    # name: (files, documents, with bad JSON)
    "full": (3, DOCS + [DOC_RESERVED], True),   # 3 x (4 docs + reserved doc + break + remove) = 21
    "small": (2, DOCS[:3], True),               # 2 x (3 docs + break + remove) = 10
    "three": (3, DOCS[:2], False),              # 3 x (2 docs + remove) = 9: cache stacks of 3 files
    "deep": (2, DOCS[:2], False),               # 2 x (2 docs + remove) = 6: long edit ping-pong
    # 2 x (p as v1, p as v2, a document without p, remove) = 8: take-over / drop / re-take chains
    "edit": (2, [DOCS[0], _j({"p": {"SECRET_DATA": {"DESTROY": "ALLOW_OWNER"}}}), DOCS[2]], False),
    # the same plus a valid document that defines nothing at all: 2 x 5 = 10 letters
    "edit0": (2, [DOCS[0], _j({"p": {"SECRET_DATA": {"DESTROY": "ALLOW_OWNER"}}}), DOCS[2], "{}"], False),
    # 2 x (p as v1, document without p, remove, put back as it was) = 8: a file that disappears
    # for some scans and returns with the time stamp it had
    "back": (2, [DOCS[0], DOCS[2]], False, True),
}


def _alphabet(which):
    if which.endswith("-pairs"):
        # composite letters: one event, or two events on DIFFERENT files, then one scan - several
        # files change between two scans (rm *.json, an editor saving two files, ...)
        fnames, base = _alphabet(which[:-len("-pairs")])
        letters = [[e] for e in base]
        for a in base:
            for b in base:
                if a["f"] != b["f"]:
                    letters.append([a, b])
        return fnames, letters
    nfiles, docs, with_bad = ALPHABETS[which][:3]
    with_back = len(ALPHABETS[which]) > 3 and ALPHABETS[which][3]
    letters = []
    for f in range(nfiles):
        for t in docs + ([BAD_JSON] if with_bad else []):
            letters.append({"op": "w", "f": f, "text": t})
        letters.append({"op": "r", "f": f})
        if with_back:
            letters.append({"op": "b", "f": f})
    return ["a.json", "b.json", "c.json"][:nfiles], letters


def _record(col, spec, res, extra_classes=()):
    classes = sorted(res["labels"]) + list(extra_classes)
    if res.get("excluded"):
        col.exclude(res["excluded"])
    col.record(spec, nontrivial=res["nontrivial"], classes=classes, buckets=res["buckets"])


def w_exhaustive(which, depth, shard, nshards):
    col = core.Collector(PID)
    base = tempfile.mkdtemp(prefix="verif-c18-")
    try:
        fnames, letters = _alphabet(which)
        for i, word in enumerate(itertools.product(letters, repeat=depth)):
            if i % nshards != shard:
                continue
            spec = {"part": "seq", "fnames": fnames, "auto_scan": True, "events": list(word)}
            res = run_seq(spec, base)
            _record(col, spec, res, ["seq:exhaustive-%s-depth-%d" % (which, depth)])
            col.bump("scans", res["scans"])
        col.bump("exhaustive_words_%s_depth_%d" % (which, depth),
                 len(range(shard, len(letters) ** depth, nshards)))
    finally:
        shutil.rmtree(base, ignore_errors=True)
    return col


def w_frontier(which, words, shard):
    """Run the given words (lists of letter indices); -> collector + [(state key, word)]."""
    col = core.Collector(PID)
    base = tempfile.mkdtemp(prefix="verif-c18-")
    out = []
    try:
        fnames, letters = _alphabet(which)
        for w in words:
            if which.endswith("-pairs"):
                evs = []
                for i in w:
                    evs.extend(letters[i])
                    evs.append({"op": "s"})
                spec = {"part": "seq", "fnames": fnames, "auto_scan": False, "events": evs}
            else:
                spec = {"part": "seq", "fnames": fnames, "auto_scan": True,
                        "events": [letters[i] for i in w]}
            res = run_seq(spec, base, want_state=True)
            _record(col, spec, res, ["seq:frontier-%s-depth-%d" % (which, len(w))])
            col.bump("scans", res["scans"])
            if "state" in res:
                out.append((res["state"], w))
    finally:
        shutil.rmtree(base, ignore_errors=True)
    d = col.to_dict()
    d["_frontier"] = out
    return d


def explore_frontier(which, depth, ns):
    """Level-synchronous exploration of ALL words up to `depth` over the alphabet, modulo
    situations already expanded: a word is extended only if the situation it leads to (see
    _state_key) has not been reached by an earlier word.  -> (collector dicts, stats)."""
    fnames, letters = _alphabet(which)
    seen = set()
    reps = [[]]
    dicts = []
    stats = []
    for level in range(1, depth + 1):
        cand = [w + [i] for w in reps for i in range(len(letters))]
        shards = [cand[s::ns] for s in range(ns)]
        res = core.run_sharded("vlib.props.c18", "w_frontier",
                               [(which, sh, s) for s, sh in enumerate(shards) if sh])
        new = []
        for d in res:
            new.extend(d.pop("_frontier"))
            dicts.append(d)
        new.sort(key=lambda kw: kw[1])
        reps = []
        for key, w in new:
            if key not in seen:
                seen.add(key)
                reps.append(w)
        stats.append((level, len(cand), len(reps)))
        if not reps:
            break
    return dicts, stats


# ------------------------------------------------------------------ strategies for part (ii)
NAMES2 = ["p", "q", "r", "s", "t"]
FILES2 = ["a.json", "b.json", "c.json", "d.json", "e.json", "f.json"]
WRONG_SHAPE = ['[]', '"x"', '{"p": 5}', '{"p": {"preset": 5}}', '{"p": {"groups": {"g": 5}}}',
               '{"q": {"preset": {"CERTIFICATE": {"GET": "ALLOW_ALL"}}, "CERTIFICATE": {}}}',
               '{"r": {"CERTIFICATE": null}}']


def _strategies():
    from hypothesis import strategies as st
    row = st.dictionaries(st.sampled_from(OPERATIONS[:24]), st.sampled_from(PERMISSIONS),
                          min_size=1, max_size=3)
    table = st.dictionaries(st.sampled_from(OBJECT_TYPES), row, min_size=1, max_size=2)
    groups = st.dictionaries(st.sampled_from(["g1", "g2", "ops"]), table, min_size=1, max_size=2)
    definition = st.one_of(
        table,
        st.fixed_dictionaries({"preset": table}),
        st.fixed_dictionaries({"groups": groups}),
        st.fixed_dictionaries({"preset": table, "groups": groups}))
    return st, row, table, groups, definition


def st_sequences():
    st, row, table, groups, definition = _strategies()
    # heavily overlapping names: deep shadowing stacks are what the monitor has to get right
    names = st.sampled_from(["p"] * 6 + ["q"] * 3 + NAMES2[2:] + list(RESERVED))
    doc = st.one_of(st.dictionaries(names, definition, min_size=1, max_size=2),
                    st.dictionaries(names, definition, max_size=3))
    valid_text = doc.map(_j)

    @st.composite
    def broken(draw):
        kind = draw(st.sampled_from(
            ["truncated", "garbage", "empty-file", "unknown-operation", "unknown-object-type",
             "unknown-permission", "unknown-section", "non-utf8", "wrong-shape"]))
        if kind == "truncated":
            t = draw(valid_text.filter(lambda s: len(s) > 2))
            return {"text": t[:draw(st.integers(1, len(t) - 1))]}
        if kind == "garbage":
            return {"text": draw(st.sampled_from(["not a JSON blob", "{", "{'p': {}}", "}{"]))}
        if kind == "empty-file":
            return {"text": ""}
        if kind == "non-utf8":
            return {"hex": (b"\xff\xfe" + draw(valid_text).encode()).hex()}
        if kind == "wrong-shape":
            return {"text": draw(st.sampled_from(WRONG_SHAPE))}
        # a semantic defect next to valid policies: the file must be rejected as a whole
        d = draw(doc)
        victim = draw(st.sampled_from(NAMES2))
        bad = {"unknown-operation": {"preset": {"SYMMETRIC_KEY": {"FROBNICATE": "ALLOW_ALL"}}},
               "unknown-object-type": {"preset": {"SYMMETRIC_KEYS": {"GET": "ALLOW_ALL"}}},
               "unknown-permission": {"groups": {"g1": {"SYMMETRIC_KEY": {"GET": "ALLOW"}}}},
               "unknown-section": {"presets": {"SYMMETRIC_KEY": {"GET": "ALLOW_ALL"}}}}[kind]
        d = dict(d)
        d[victim] = bad
        return {"text": _j(d)}

    @st.composite
    def seq(draw):
        n = draw(st.sampled_from([2, 3, 3, 4, 4, 5, 6]))
        fnames = draw(st.permutations(FILES2[:n]))
        fidx = st.integers(0, n - 1)
        wv = st.builds(lambda f, t: {"op": "w", "f": f, "text": t}, fidx, valid_text)
        rm = st.builds(lambda f: {"op": "r", "f": f}, fidx)
        sc = st.just({"op": "s"})
        ev = st.one_of(
            wv, wv, wv, wv,
            st.builds(lambda f, b: dict({"op": "w", "f": f}, **b), fidx, broken()),
            rm, rm,
            st.builds(lambda f: {"op": "t", "f": f}, fidx),
            st.builds(lambda f: {"op": "fix", "f": f}, fidx),
            st.builds(lambda f: {"op": "b", "f": f}, fidx),
            sc, sc, sc, sc)
        k = draw(st.integers(4, 20))
        events = draw(st.lists(ev, min_size=k, max_size=k))
        return {"part": "seq", "fnames": list(fnames), "auto_scan": False, "events": events}

    return seq()


_WS_REASONS = ("wrong-type@", "mixed-sections")
X_WRONG_SHAPE = ("wrong-shape document inside an event sequence replaced by bad JSON (known: "
                 "non-ValueError escapes scan_policies); kept in shard 0 and in part (iii)")


def w_random_seq(seed, n, shard):
    col = core.Collector(PID)
    base = tempfile.mkdtemp(prefix="verif-c18-")
    try:
        def one(spec):
            if shard != 0:
                for ev in spec["events"]:
                    if ev["op"] == "w" and "text" in ev:
                        r = ref_parse(ev["text"].encode("utf-8"))
                        if r["status"] == "invalid" and r["reason"].startswith(_WS_REASONS):
                            ev["text"] = BAD_JSON
                            col.exclude(X_WRONG_SHAPE)
            res = run_seq(spec, base)
            nscan = res["scans"]
            _record(col, spec, res, ["seq:random", "seq:random-events=%d" % len(spec["events"])])
            col.bump("scans", nscan)
        core.draw_examples(st_sequences(), n, seed, one)
    finally:
        shutil.rmtree(base, ignore_errors=True)
    return col


# ------------------------------------------------------------------ part (iii): documents
_T_PRESET = {"CERTIFICATE": {"LOCATE": "ALLOW_ALL", "CHECK": "ALLOW_OWNER"}}
_T_GROUPS = {"group_A": {"CERTIFICATE": {"GET": "ALLOW_ALL", "DESTROY": "ALLOW_ALL"}},
             "group_B": {"CERTIFICATE": {"GET": "ALLOW_ALL", "DESTROY": "DISALLOW_ALL"}}}
TEMPLATES = [
    {"legacy": {"CERTIFICATE": {"LOCATE": "ALLOW_ALL", "GET": "ALLOW_OWNER"},
                "SYMMETRIC_KEY": {"DESTROY": "DISALLOW_ALL"}}},
    {"example": {"preset": _T_PRESET}},
    {"example": {"groups": _T_GROUPS}},
    {"example": {"preset": {"CERTIFICATE": {"DESTROY": "DISALLOW_ALL"}}, "groups": _T_GROUPS}},
    {"example_1": {"preset": {"CERTIFICATE": {"DESTROY": "DISALLOW_ALL"}}},
     "example_2": {"groups": _T_GROUPS},
     "example_3": {"PGP_KEY": {"GET": "ALLOW_ALL"}}},
    {"empty": {}, "other": {"preset": _T_PRESET}},
    {},
    {"default": {"preset": _T_PRESET}, "public": {"TEMPLATE": {"GET": "ALLOW_OWNER"}},
     "mine": {"groups": {"g": {"SPLIT_KEY": {"GET": "ALLOW_ALL"}}}}},
    {u"café ☃": {"preset": {"SECRET_DATA": {"GET": "ALLOW_ALL"}}}, "": _T_PRESET},
]
T_EVERYTHING = {"all": {"preset": dict(
    (t, dict((op, PERMISSIONS[(i + k) % 3]) for k, op in enumerate(OPERATIONS)))
    for i, t in enumerate(OBJECT_TYPES))}}
REPLACEMENTS = [None, True, False, 0, 7, -1.5, "x", "", "ALLOW_ALL", "allow_all", "Allow All",
                "CERTIFICATE", [], [1],
                ["GET"], {}, {"x": 1}, {"CERTIFICATE": {"GET": "ALLOW_ALL"}},
                {"preset": {"CERTIFICATE": {"GET": "ALLOW_ALL"}}}]
RENAMES = ["Certificate", "certificate", "Symmetric Key", "BOGUS", "Get", "get", "FROBNICATE",
           "presets", "Preset", "PRESET", "group", "Groups", "ALLOW_ALL", "preset", "groups",
           "CERTIFICATE", "GET", ""]


def _nodes(node, pre=()):
    yield pre, node
    if isinstance(node, dict):
        for k in node:
            for x in _nodes(node[k], pre + (k,)):
                yield x


def _set(doc, path, val):
    doc = copy.deepcopy(doc)
    if not path:
        return copy.deepcopy(val)
    cur = doc
    for k in path[:-1]:
        cur = cur[k]
    cur[path[-1]] = copy.deepcopy(val)
    return doc


def _rename(doc, path, new):
    """Rename the key at `path` (keeping order); None if the new key already exists."""
    doc = copy.deepcopy(doc)
    cur = doc
    for k in path[:-1]:
        cur = cur[k]
    if new in cur:
        return None
    items = [(new if k == path[-1] else k, v) for k, v in cur.items()]
    cur.clear()
    cur.update(items)
    return doc


def _dump_dup(doc, path, first_val):
    """Serialise `doc` with the key at `path` emitted twice: first with first_val, then with
    its real value (and the reverse order)."""
    outs = []
    for order in (0, 1):
        def ser(node, pre):
            if isinstance(node, dict):
                parts = []
                for k, v in node.items():
                    if pre + (k,) == path:
                        a, b = json.dumps(first_val), ser(v, pre + (k,))
                        if order:
                            a, b = b, a
                        parts.append("%s: %s" % (json.dumps(k), a))
                        parts.append("%s: %s" % (json.dumps(k), b))
                    else:
                        parts.append("%s: %s" % (json.dumps(k), ser(v, pre + (k,))))
                return "{" + ", ".join(parts) + "}"
            return json.dumps(node)
        outs.append(ser(doc, ()))
    return outs


def enumerated_documents():
    """Deterministic list of document specs: every template, and one defect at every position."""
    out = []

    def add(text=None, raw=None):
        out.append({"part": "doc", "text": text} if raw is None else
                   {"part": "doc", "hex": raw.hex()})

    add(_j(T_EVERYTHING))
    for t in TEMPLATES:
        text = json.dumps(t, ensure_ascii=False)
        add(text)
        add(json.dumps(t, indent=4))
        for path, node in _nodes(t):
            for rep in REPLACEMENTS:
                if rep != node or type(rep) is not type(node):
                    add(json.dumps(_set(t, path, rep), ensure_ascii=False))
            if path:
                for new in RENAMES:
                    d = _rename(t, path, new)
                    if d is not None:
                        add(json.dumps(d, ensure_ascii=False))
                for dup in _dump_dup(t, path, {"CERTIFICATE": {"GET": "DISALLOW_ALL"}}):
                    add(dup)
                for dup in _dump_dup(t, path, "ALLOW_ALL"):
                    add(dup)
            if isinstance(node, dict):
                for extra_k, extra_v in (("extra", {"CERTIFICATE": {"GET": "ALLOW_ALL"}}),
                                         ("CERTIFICATE", {"GET": "ALLOW_ALL"}),
                                         ("preset", {"CERTIFICATE": {"GET": "ALLOW_ALL"}}),
                                         ("GET", "ALLOW_ALL"), ("extra", 5)):
                    if extra_k not in node:
                        d = _set(t, path + (extra_k,), extra_v)
                        add(json.dumps(d, ensure_ascii=False))
        raw = text.encode("utf-8")
        for cut in range(0, len(raw)):
            add(raw=raw[:cut])                      # every strict prefix: not JSON
        for pos in range(0, len(raw) + 1, 7):
            add(raw=raw[:pos] + b"\xff" + raw[pos:])  # not UTF-8
            add(raw=raw[:pos] + b"\xc3\x28" + raw[pos:])
        add(raw=b"\xef\xbb\xbf" + raw)              # UTF-8 BOM
        add(text + " trailing")
        add(text.replace('"', "'"))
    add("[" * 200000)
    add("")
    add("null")
    return out


def w_enum_docs(shard, nshards):
    col = core.Collector(PID)
    base = tempfile.mkdtemp(prefix="verif-c18-")
    try:
        specs = enumerated_documents()
        for i, spec in enumerate(specs):
            if i % nshards != shard:
                continue
            res = run_doc(spec, base)
            _record(col, spec, res, ["doc:enumerated"])
        if shard == 0:
            col.bump("enumerated_documents", len(specs))
    finally:
        shutil.rmtree(base, ignore_errors=True)
    return col


def st_documents():
    st, row, table, groups, definition = _strategies()
    big_row = st.dictionaries(st.sampled_from(OPERATIONS), st.sampled_from(PERMISSIONS),
                              max_size=6)
    big_table = st.dictionaries(st.sampled_from(OBJECT_TYPES), big_row, max_size=4)
    big_groups = st.dictionaries(st.text(max_size=6), big_table, max_size=3)
    big_def = st.one_of(st.just({}), big_table,
                        st.fixed_dictionaries({"preset": big_table}),
                        st.fixed_dictionaries({"groups": big_groups}),
                        st.fixed_dictionaries({"preset": big_table, "groups": big_groups}))
    name = st.one_of(st.sampled_from(["a", "b", "example", "default", "public"]),
                     st.text(max_size=8))
    valid = st.dictionaries(name, st.one_of(definition, big_def), max_size=4)
    anyjson = st.recursive(
        st.one_of(st.none(), st.booleans(), st.integers(-5, 5),
                  st.floats(allow_nan=False, allow_infinity=False, width=16),
                  st.sampled_from(["", "x", "GET", "ALLOW_ALL", "CERTIFICATE", "preset"])),
        lambda c: st.one_of(st.lists(c, max_size=3),
                            st.dictionaries(st.sampled_from(
                                ["a", "preset", "groups", "CERTIFICATE", "GET", "x"]), c,
                                max_size=3)),
        max_leaves=12)

    @st.composite
    def mutated(draw):
        d = draw(valid.filter(lambda v: len(v) > 0))
        nodes = list(_nodes(d))
        path, node = nodes[draw(st.integers(0, len(nodes) - 1))]
        how = draw(st.sampled_from(["replace", "replace", "rename", "extra-key", "dup", "any"]))
        if how == "replace":
            return json.dumps(_set(d, path, draw(st.sampled_from(REPLACEMENTS))))
        if how == "any":
            return json.dumps(_set(d, path, draw(anyjson)))
        if how == "rename" and path:
            r = _rename(d, path, draw(st.one_of(st.sampled_from(RENAMES),
                                                st.sampled_from(OPERATIONS),
                                                st.sampled_from(OBJECT_TYPES))))
            return json.dumps(r if r is not None else d)
        if how == "dup" and path:
            return draw(st.sampled_from(_dump_dup(d, path, draw(st.one_of(anyjson, definition)))))
        if isinstance(node, dict):
            k = draw(st.sampled_from(["extra", "CERTIFICATE", "preset", "groups", "GET"]))
            if k not in node:
                return json.dumps(_set(d, path + (k,), draw(st.one_of(anyjson, table))))
        return json.dumps(d)

    textdoc = st.one_of(valid.map(json.dumps), valid.map(json.dumps), mutated(), mutated(),
                        mutated(), anyjson.map(json.dumps))
    return textdoc.map(lambda t: {"part": "doc", "text": t})


def w_random_docs(seed, n):
    col = core.Collector(PID)
    base = tempfile.mkdtemp(prefix="verif-c18-")
    try:
        def one(spec):
            res = run_doc(spec, base)
            _record(col, spec, res, ["doc:random"])
        core.draw_examples(st_documents(), n, seed, one)
    finally:
        shutil.rmtree(base, ignore_errors=True)
    return col


# ------------------------------------------------------------------ entry points
def _sanity():
    """The reference tables must be the KMIP tables the library knows (else: harness error)."""
    from kmip.core import enums
    for mine, theirs in ((OBJECT_TYPES, enums.ObjectType), (OPERATIONS, enums.Operation),
                         (PERMISSIONS, enums.Policy)):
        if set(mine) != set(theirs.__members__):
            raise core.HarnessError("reference name table differs from kmip.core.enums.%s: %s"
                                    % (theirs.__name__,
                                       sorted(set(mine) ^ set(theirs.__members__))))
    for t in DOCS + [DOC_RESERVED]:
        if ref_parse(t.encode())["status"] != "valid":
            raise core.HarnessError("alphabet document is not valid by the reference grammar")
    if ref_parse(BAD_JSON.encode())["status"] != "invalid":
        raise core.HarnessError("BAD_JSON is not invalid")


def run(ctx):
    _sanity()
    ns = core.NCPU
    jobs = []
    depths = {"full": ctx.n(3, 4), "small": ctx.n(4, 5), "three": ctx.n(4, 5),
              "deep": ctx.n(5, 6)}
    for which in ("full", "small", "three", "deep"):
        for s in range(ns):
            jobs.append(("w_exhaustive", (which, depths[which], s, ns)))
    nseq = ctx.n(3200, 50000)
    for s in range(ns):
        jobs.append(("w_random_seq", (core.derive_seed(ctx.seed, "seq", s), nseq // ns, s)))
    for s in range(ns):
        jobs.append(("w_enum_docs", (s, ns)))
    ndoc = ctx.n(3200, 32000)
    for s in range(ns):
        jobs.append(("w_random_docs", (core.derive_seed(ctx.seed, "doc", s), ndoc // ns)))
    by_fn = {}
    for fn, args in jobs:
        by_fn.setdefault(fn, []).append(args)
    dicts = []
    for fn in ("w_exhaustive", "w_random_seq", "w_enum_docs", "w_random_docs"):
        dicts.extend(core.run_sharded("vlib.props.c18", fn, by_fn[fn]))
    fdepth = {"edit": ctx.n(8, 11), "small": ctx.n(6, 8), "three": ctx.n(5, 7),
              "edit-pairs": ctx.n(4, 5), "three-pairs": ctx.n(2, 3), "edit0": ctx.n(6, 9),
              "back": ctx.n(7, 10)}
    fstats = {}
    for which in ("edit", "small", "three", "edit-pairs", "three-pairs", "edit0", "back"):
        fd, st = explore_frontier(which, fdepth[which], ns)
        dicts.extend(fd)
        fstats[which] = st
    col = core.merged(PID, dicts)
    col.extra["frontier_levels"] = dict(
        (w, ["depth %d: %d words run, %d new situations" % s for s in st])
        for w, st in fstats.items())
    col.extra["exhaustive"] = True
    col.extra["exhaustive_scope"] = (
        "all words, scan after every event, of length %d over 21 letters (3 files x {4 documents, "
        "reserved-name document, bad JSON, remove}), length %d over 10 letters (2 files x {3 "
        "documents, bad JSON, remove}), length %d over 9 letters (3 files x {2 documents, "
        "remove}), length %d over 6 letters (2 files x {2 documents, remove}); in addition all "
        "words up to length %d over 8 letters (2 files x {p as v1, p as v2, document without p, "
        "remove}), %d over the 10 letters and %d over the 9 letters above, where a word is only "
        "extended if the situation it leads to (directory contents, every attribute of the "
        "monitor object, the store, the model's state; time stamps by rank) was not reached by "
        "an earlier word; the same with composite letters (one event or two events on different "
        "files, then ONE scan) to %d letters over the 8-letter and %d over the 9-letter alphabet; "
        "the random parts and the document part are not exhaustive"
        % (depths["full"], depths["small"], depths["three"], depths["deep"],
           fdepth["edit"], fdepth["small"], fdepth["three"], fdepth["edit-pairs"],
           fdepth["three-pairs"]))
    return col


def replay(spec):
    _sanity()
    base = tempfile.mkdtemp(prefix="verif-c18-")
    try:
        if spec.get("part") == "seq":
            return run_seq(spec, base)["buckets"]
        if spec.get("part") == "doc":
            return run_doc(spec, base)["buckets"]
        raise core.HarnessError("unknown spec part %r" % (spec.get("part"),))
    finally:
        shutil.rmtree(base, ignore_errors=True)
