"""C12 - The session answers any bytes safely, once, and keeps going.

A case is a byte STREAM on one connection: 0-3 "bad" frames (grammar-aware mutations of valid
requests, raw random bytes, a few valid requests with unusual headers) followed by one valid
request, delivered to a real KmipSession._handle_message_loop (kmip/services/server/session.py)
through a scripted connection whose recv() follows a generated chunk schedule.  The server is a
real KmipEngine on a byte copy of the standard template store.

Independent judgement (never the session's own verdict):
  * framing: the stream is split with the rule the property calls "each framed request" (8 header
    bytes, length in bytes 4..8, then exactly that many bytes); an incomplete last frame gets no
    answer;
  * judge(frame): strict TTLV well-formedness of the Request Header and of the Batch Count many
    Batch Items (vlib.ttlvref, KMIP spec 9.1) plus the message layout of the KMIP spec (Request
    Message = Request Header {Protocol Version {major, minor} ... Batch Count}, Batch Item+);
  * spies: RequestMessage.read (did the library decoder raise?), engine.process_request (was
    the engine entered?), BytearrayStream.read (decoder step budget), the SQLite file read through
    stdlib sqlite3 at every frame boundary, every sendall with the stream position it came at.

Every stream is run twice on two fresh servers under two chunk schedules; the second run carries
the drawn Maximum Response Size in the final request.  The final request is run a third time on a
fresh connection to a fresh server opened on a copy of the database taken when the first byte of
the final frame was requested.
"""
import copy
import bisect
import json
import logging
import os
import re
import shutil
import subprocess
import sys
import tempfile

from kmip.core import exceptions as kexc
from kmip.core import utils as cutils
from kmip.core.messages import messages
from kmip.services.server import session as session_mod

from vlib import core, harness as H, hist, menus as M, store, ttlvref

PID = "C12"
LEVEL = "exploration"
RULE = ("streams bad*(0-3) + one valid request on one connection, two recv chunk schedules "
        "(1 byte .. whole), optional Maximum Response Size around the true response size. bad "
        "frames: (A) sweep over every TTLV node of one valid request per (operation, version): "
        "truncation at the node boundary / inside its header / inside its value (outer length "
        "fixed or not), 12 length-field values incl. 0xFFFFFFFF and unaligned, type flips, delete, "
        "duplicate, retype; (B) Hypothesis draws over all kinds (trunc, len, type, tag, dup, del, "
        "nest 200-320 deep, version, count, enum, retype, flip, pad, junk-tail, raw bytes with "
        "and without a plausible header, valid requests with header variants) over requests from "
        "the hist/menus pools for every operation and version; (C, thorough) atheris target "
        "fuzz_session with seeded and empty corpus. A bad frame is non-trivial when the reference "
        "parser sees a Request Message whose first child is a Request Header structure (the "
        "decoder entered the header) and the frame is not a valid request (reference parser or "
        "library decoder refuse it); distinct = distinct (mutation kind, operation, version)")
ASSUMPTIONS = [
    "the session is driven through KmipSession.run() (handshake, message loop, shutdown) over a scripted connection; what run() logs with an exception attached counts as an exception that left the message loop (formerly: a harness loop "
    "until ConnectionClosed, other exceptions recorded and the loop continued) over a fake "
    "connection; recv returns b'' at end of data",
    "a frame whose only irregularity is bytes after the Batch Count many batch items, or a Batch "
    "Count smaller than the number of items present, is left open by the statement (the server may "
    "ignore the surplus or refuse the message)",
    "whether an operation whose response is replaced by Response Too Large has been executed is "
    "left open by the statement",
    "responses of the final requests are deterministic given database and harness clock (IVs are "
    "always supplied, key material never travels in a creating response)",
    "the version of an Invalid Message answer to a frame the decoder refused is left open "
    "(DESIGN.md C12: the request's version is unknown to the decoder)",
    "exploration bound: valid requests asking the crypto backend for more than a 4096 bit key "
    "pair, 100000 PBKDF2 iterations or 64 KiB of derived/created key material are refused by a "
    "stand-in in front of the real backend (a mutation can produce such requests; they would run "
    "for hours and are outside the property)",
]
SHRINK_BUDGET = 60

# KMIP spec: Result Status / Result Reason enumerations
STATUS_OPERATION_FAILED = 1
REASON_RESPONSE_TOO_LARGE = 0x02
REASON_INVALID_MESSAGE = 0x04

T0 = 1_700_000_500
MAX_STREAM = 65536
SUPPORTED = set(H.VERSIONS)

logging.getLogger("kmip.server.session").addHandler(logging.NullHandler())
# every case opens three SQLite copies; on a loaded machine fsync on disk dominates the wall time
if "VERIF_TMP" not in os.environ and os.path.isdir("/dev/shm") and os.access("/dev/shm", os.W_OK):
    os.environ["VERIF_TMP"] = "/dev/shm"


# ------------------------------------------------------------------------------ TTLV helpers
def _hdr(tag, typ, length):
    return tag.to_bytes(3, "big") + bytes([typ & 0xFF]) + (length & 0xFFFFFFFF).to_bytes(4, "big")


def walk(data):
    """Preorder node table of a (well-formed) TTLV encoding: off, tag, typ, len, depth, parent,
    end (padded).  Tolerant: stops silently where the bytes stop making sense."""
    nodes = []

    def rec(off, end, depth, parent):
        while off + 8 <= end:
            tag = int.from_bytes(data[off:off + 3], "big")
            typ = data[off + 3]
            ln = int.from_bytes(data[off + 4:off + 8], "big")
            padded = (ln + 7) // 8 * 8
            if off + 8 + padded > end:
                return
            i = len(nodes)
            nodes.append({"off": off, "tag": tag, "typ": typ, "len": ln, "depth": depth,
                          "parent": parent, "end": off + 8 + padded})
            if typ == ttlvref.STRUCTURE and depth < 40:
                rec(off + 8, off + 8 + ln, depth + 1, i)
            off += 8 + padded

    rec(0, len(data), 0, -1)
    return nodes


def nesting_depth(data, limit=48):
    """Depth of structure nesting along first-children chains and siblings, iteratively."""
    deepest = 0
    todo = [(0, len(data), 1)]
    steps = 0
    while todo:
        off, end, depth = todo.pop()
        while off + 8 <= end:
            steps += 1
            if steps > 200000:
                return limit + 1
            typ = data[off + 3]
            ln = int.from_bytes(data[off + 4:off + 8], "big")
            padded = (ln + 7) // 8 * 8
            if off + 8 + padded > end:
                break
            if typ == ttlvref.STRUCTURE:
                deepest = max(deepest, depth)
                if depth > limit:
                    return depth
                todo.append((off + 8, off + 8 + ln, depth + 1))
            off += 8 + padded
    return deepest


def split_frames(stream):
    """The session's framing rule applied independently: [(start, end)] of complete frames and the
    offset where the incomplete tail starts."""
    frames = []
    off = 0
    n = len(stream)
    while n - off >= 8:
        ln = int.from_bytes(stream[off + 4:off + 8], "big")
        if off + 8 + ln > n:
            break
        frames.append((off, off + 8 + ln))
        off += 8 + ln
    return frames, off


_WHY = [("exceeds enclosing", "length-exceeds-enclosing"),
        ("truncated item header", "truncated-item-header"),
        ("children do not fill", "children-overrun"),
        ("not multiple of 8", "structure-length-unaligned"),
        ("must have length", "primitive-length"),
        ("big integer length", "primitive-length"),
        ("non-zero padding", "nonzero-padding"),
        ("not UTF-8", "text-not-utf8"),
        ("boolean", "boolean-value"),
        ("bad item type", "bad-item-type"),
        ("outside 42", "tag-outside-range"),
        ("nesting too deep", "nesting-too-deep"),
        ("trailing bytes", "truncated-item-header")]


def _classify(err):
    s = str(err)
    for sub, cls in _WHY:
        if sub in s:
            return cls
    return "other"


def _strict(item):
    """None if item (one TTLV item, bytes) is strictly well-formed, else the defect class."""
    if nesting_depth(item) > 40:
        return None, "nesting-too-deep"
    try:
        nodes = ttlvref.parse(item, strict=True, max_depth=64)
    except ttlvref.TTLVError as e:
        return None, _classify(e)
    except RecursionError:
        return None, "nesting-too-deep"
    if len(nodes) != 1:
        return None, "other"
    return nodes[0], None


def judge(frame):
    """Independent judgement of one complete frame.  ok: a well-formed request message as far as
    TTLV and the message layout go; depth: 0 first tag refused, 1 Request Message entered,
    2 Request Header entered, 3 a Batch Item entered."""
    out = {"ok": False, "why": "", "depth": 0, "version": None, "count": None, "trailing": False}
    tag = int.from_bytes(frame[0:3], "big")
    if tag != ttlvref.T_REQUEST_MESSAGE or frame[3] != ttlvref.STRUCTURE:
        out["why"] = "not-a-request-message"
        return out
    out["depth"] = 1
    body = frame[8:]
    kids = []
    off = 0
    while len(body) - off >= 8:
        ln = int.from_bytes(body[off + 4:off + 8], "big")
        ext = 8 + (ln + 7) // 8 * 8
        if off + ext > len(body):
            break
        kids.append(body[off:off + ext])
        off += ext
    rest = body[off:]
    overrun = "length-exceeds-enclosing" if len(rest) >= 8 else "truncated-item-header"
    if not kids:
        out["why"] = overrun if rest else "no-request-header"
        if len(rest) >= 8 and int.from_bytes(rest[0:3], "big") == ttlvref.T_REQUEST_HEADER \
                and rest[3] == ttlvref.STRUCTURE:
            out["depth"] = 2
        return out
    h = kids[0]
    if int.from_bytes(h[0:3], "big") != ttlvref.T_REQUEST_HEADER or h[3] != ttlvref.STRUCTURE:
        out["why"] = "no-request-header"
        return out
    out["depth"] = 2
    node, why = _strict(h)
    if node is None:
        out["why"] = why
        return out
    hk = node["children"]
    pv = hk[0] if hk else None
    if pv is None or pv["tag"] != ttlvref.T_PROTOCOL_VERSION or pv["type"] != ttlvref.STRUCTURE:
        out["why"] = "header-without-version"
        return out
    pk = pv["children"]
    if len(pk) != 2 or pk[0]["tag"] != ttlvref.T_PROTOCOL_VERSION_MAJOR \
            or pk[1]["tag"] != ttlvref.T_PROTOCOL_VERSION_MINOR \
            or pk[0]["type"] != ttlvref.INTEGER or pk[1]["type"] != ttlvref.INTEGER:
        out["why"] = "header-without-version"
        return out
    out["version"] = (pk[0]["value"], pk[1]["value"])
    bc = hk[-1]
    if bc["tag"] != ttlvref.T_BATCH_COUNT or bc["type"] != ttlvref.INTEGER:
        out["why"] = "header-without-batch-count"
        return out
    count = bc["value"]
    out["count"] = count
    need = max(count, 0)
    items = kids[1:1 + need]
    if len(items) < need:
        out["why"] = overrun if rest else "batch-count-exceeds-items"
        if items or (len(rest) >= 8 and int.from_bytes(rest[0:3], "big") == ttlvref.T_BATCH_ITEM):
            out["depth"] = 3
        return out
    for it in items:
        if int.from_bytes(it[0:3], "big") != ttlvref.T_BATCH_ITEM or it[3] != ttlvref.STRUCTURE:
            out["why"] = "not-a-batch-item"
            return out
        out["depth"] = 3
        node, why = _strict(it)
        if node is None:
            out["why"] = why
            out["bad_op"] = _frame_operation(it)     # the item whose bytes are not well-formed
            return out
    out["trailing"] = bool(rest) or len(kids) > 1 + need
    out["ok"] = True
    return out


# ------------------------------------------------------------------------------ mutations
KINDS = ["trunc", "len", "type", "tag", "dup", "del", "nest", "version", "count", "enum", "retype",
         "flip", "pad", "junk", "stuff"]
LEN_VARIANTS = 12
TYPE_VALUES = [0, 1, 2, 3, 4, 5, 6, 7, 8, 9, 10, 11, 12, 0x80, 0xFF]
ALIEN_TAGS = [0x42FFFF, 0x000000, 0x540001, 0x420000, 0xFFFFFF, 0x420001, 0x410078]
BAD_VERSIONS = [(3, 0), (1, 9), (0, 0), (255, 255), (1, 5), (2, 1), (-1, 0), (1, -1),
                (2 ** 31 - 1, 0), (0, 2)]
ENUM_VALUES = [0, 0xFFFFFFFF, 0x7FFFFFFF, 0x80000000, 0x3E8, 0x2C, 0x100, 0x7F]
JUNK = [b"\x00", b"\x42\x00\x78\x01", b"\x00" * 8, b"\xff" * 8, b"\x42\x00\x0f\x01\x00\x00\x00\x00",
        b"\x42\x00\x0f\x01\x00\x00\x00\x10" + b"\x00" * 8, b"\x01\x02\x03"]


def _len_variant(ln, var):
    vals = [0, ln - 1, ln + 1, ln - 8, ln + 8, ln + 3, ln * 2 + 8, 0xFFFFFFFF, 0x7FFFFFFF,
            0x80000000, 8, ln + 16]
    v = vals[var % len(vals)]
    return max(0, v) & 0xFFFFFFFF


def _retype_item(tag, var):
    enc = [lambda: ttlvref.encode_integer(tag, 1), lambda: ttlvref.encode_text(tag, "x"),
           lambda: ttlvref.encode_bytes(tag, b"\x01"), lambda: ttlvref.encode_struct(tag, []),
           lambda: ttlvref.encode_bool(tag, True), lambda: ttlvref.encode_enum(tag, 1),
           lambda: ttlvref.encode_long(tag, 1), lambda: ttlvref.encode_datetime(tag, 1),
           lambda: ttlvref.encode_interval(tag, 1), lambda: ttlvref.encode_big(tag, 1),
           lambda: ttlvref.encode_struct(tag, [ttlvref.encode_integer(tag, 1)])]
    return enc[var % len(enc)]()


def _rewrite(data, nodes, i, new, fix):
    """Replace node i's encoding by `new`; fix 1: every ancestor's length follows, 2: only the
    outer frame length follows, 0: no length is touched."""
    n = nodes[i]
    out = bytearray(data[:n["off"]] + new + data[n["end"]:])
    delta = len(new) - (n["end"] - n["off"])
    if delta and fix and i > 0:
        p = n["parent"]
        chain = []
        while p >= 0:
            chain.append(p)
            p = nodes[p]["parent"]
        if fix == 2:
            chain = [c for c in chain if c == 0]
        for c in chain:
            o = nodes[c]["off"]
            ln = (nodes[c]["len"] + delta) & 0xFFFFFFFF
            out[o + 4:o + 8] = ln.to_bytes(4, "big")
    return bytes(out)


def mutate(data, mut):
    """Mutated copy of the valid request `data`; deterministic in (data, mut)."""
    kind = mut["kind"]
    at = int(mut.get("at", 0))
    var = int(mut.get("var", 0))
    fix = int(mut.get("fix", 0)) % 3
    nodes = walk(data)
    if not nodes:
        return data
    n = nodes[at % len(nodes)]
    i = at % len(nodes)
    buf = bytearray(data)

    if kind == "trunc":
        mode = var % 3
        if mode == 0:                                   # at a TTLV boundary
            p = n["off"] if i > 0 else n["end"] - 8
        elif mode == 1:                                 # inside an item header
            p = n["off"] + 1 + (var // 3) % 7
        else:                                           # inside a value / padding
            span = n["end"] - n["off"] - 8
            p = n["off"] + 8 + ((var // 3) % span if span > 0 else 0)
        p = max(1, min(p, len(data) - 1))
        out = bytearray(data[:p])
        if fix and p >= 8:
            out[4:8] = (p - 8).to_bytes(4, "big")       # the frame is complete, its inside is cut
        return bytes(out)
    if kind == "len":
        buf[n["off"] + 4:n["off"] + 8] = _len_variant(n["len"], var).to_bytes(4, "big")
        return bytes(buf)
    if kind == "type":
        choices = [t for t in TYPE_VALUES if t != n["typ"]]
        buf[n["off"] + 3] = choices[var % len(choices)]
        return bytes(buf)
    if kind == "tag":
        mode = var % 3
        if mode == 0:
            m = nodes[(var // 3) % len(nodes)]
            a, b = bytes(buf[n["off"]:n["off"] + 3]), bytes(buf[m["off"]:m["off"] + 3])
            buf[n["off"]:n["off"] + 3] = b
            buf[m["off"]:m["off"] + 3] = a
        elif mode == 1:
            buf[n["off"]:n["off"] + 3] = ALIEN_TAGS[(var // 3) % len(ALIEN_TAGS)].to_bytes(3, "big")
        else:
            others = sorted(set(x["tag"] for x in nodes if x["tag"] != n["tag"])) or [0x420001]
            buf[n["off"]:n["off"] + 3] = others[(var // 3) % len(others)].to_bytes(3, "big")
        return bytes(buf)
    if kind in ("dup", "del", "retype"):
        if i == 0:
            i = 1 % len(nodes)
            n = nodes[i]
        if i == 0:
            return data
        enc = data[n["off"]:n["end"]]
        if kind == "dup":
            new = enc * (2 + (var % 3 == 2))
        elif kind == "del":
            new = b""
        else:
            new = _retype_item(n["tag"], var)
            if new == enc:
                new = _retype_item(n["tag"], var + 1)
        return _rewrite(data, nodes, i, new, fix)
    if kind == "nest":
        structs = [k for k, x in enumerate(nodes) if x["typ"] == ttlvref.STRUCTURE]
        i = structs[at % len(structs)] if structs else 0
        n = nodes[i]
        depth = 200 + var % 121
        inner = data[n["off"]:n["end"]]
        tag = n["tag"]
        room = MAX_STREAM // 4 - len(data)
        depth = max(1, min(depth, room // 8))
        layers = []
        size = len(inner)
        for _ in range(depth):
            layers.append(_hdr(tag, ttlvref.STRUCTURE, size))
            size += 8
        new = b"".join(reversed(layers)) + inner
        if i == 0:
            return new
        return _rewrite(data, nodes, i, new, fix or 1)
    if kind == "version":
        ma, mi = BAD_VERSIONS[var % len(BAD_VERSIONS)]
        for x in nodes:
            if x["tag"] == ttlvref.T_PROTOCOL_VERSION_MAJOR and x["len"] == 4:
                buf[x["off"] + 8:x["off"] + 12] = (ma & 0xFFFFFFFF).to_bytes(4, "big")
            if x["tag"] == ttlvref.T_PROTOCOL_VERSION_MINOR and x["len"] == 4 and x["depth"] == 3:
                buf[x["off"] + 8:x["off"] + 12] = (mi & 0xFFFFFFFF).to_bytes(4, "big")
        return bytes(buf)
    if kind == "count":
        for x in nodes:
            if x["tag"] == ttlvref.T_BATCH_COUNT and x["len"] == 4 and x["depth"] == 2:
                cur = int.from_bytes(data[x["off"] + 8:x["off"] + 12], "big")
                vals = [0, -1, 2 ** 31 - 1, cur + 1, cur + 7, max(cur - 1, 0), -2 ** 31, 255, 65536]
                v = vals[var % len(vals)]
                buf[x["off"] + 8:x["off"] + 12] = (v & 0xFFFFFFFF).to_bytes(4, "big")
        return bytes(buf)
    if kind == "enum":
        enums_ = [x for x in nodes if x["typ"] == ttlvref.ENUMERATION and x["len"] == 4]
        if not enums_:
            return data
        x = enums_[at % len(enums_)]
        v = ENUM_VALUES[var % len(ENUM_VALUES)]
        buf[x["off"] + 8:x["off"] + 12] = v.to_bytes(4, "big")
        return bytes(buf)
    if kind == "flip":
        p = at % len(data)
        buf[p] ^= (var % 255) + 1
        return bytes(buf)
    if kind == "pad":
        padded = [x for x in nodes if x["typ"] != ttlvref.STRUCTURE
                  and x["end"] - x["off"] - 8 > x["len"]]
        if not padded:
            return data
        x = padded[at % len(padded)]
        buf[x["end"] - 1 - (var % (x["end"] - x["off"] - 8 - x["len"]))] = 1 + var % 255
        return bytes(buf)
    if kind == "stuff":
        # surplus bytes at the end of a structure's value, every enclosing length made to agree
        structs = [k for k, x in enumerate(nodes) if x["typ"] == ttlvref.STRUCTURE and k > 0]
        if not structs:
            return data
        i = structs[at % len(structs)]
        n = nodes[i]
        j = (JUNK + [b"\x88\x99\xaa\xbb\xcc\xdd\xee\xff", b"\x42\x00\x94\x07\x00\x00\x00\x01\x31" + b"\x00" * 7])
        j = j[var % len(j)]
        inner = data[n["off"] + 8:n["off"] + 8 + n["len"]] + j
        new = _hdr(n["tag"], ttlvref.STRUCTURE, len(inner)) + inner
        return _rewrite(data, nodes, i, new, 1)
    if kind == "junk":
        j = JUNK[var % len(JUNK)]
        out = bytearray(data + j)
        if fix:
            out[4:8] = (len(out) - 8).to_bytes(4, "big")
        return bytes(out)
    raise core.HarnessError("unknown mutation kind %r" % (kind,))


# ------------------------------------------------------------------------------ building a case
def _resolve(req):
    req = dict(req)
    ts = req.get("ts")
    if isinstance(ts, str):
        req["ts"] = {"now": T0, "stale": T0 - 1000, "future": T0 + 1000}.get(ts, T0)
    return req


def _first_op(req):
    try:
        return str(req["items"][0]["op"])
    except Exception:
        return "-"


def build_frame(fr):
    """(bytes, meta) of one bad-frame spec, or (None, reason)."""
    if "raw" in fr:
        try:
            body = bytes.fromhex(fr["raw"])
        except Exception:
            return None, "bad-hex"
        hdr = fr.get("hdr", "none")
        if hdr == "exact":
            body = _hdr(ttlvref.T_REQUEST_MESSAGE, 1, len(body)) + body
        elif hdr == "short":
            body = _hdr(ttlvref.T_REQUEST_MESSAGE, 1, len(body) // 2) + body
        elif hdr == "long":
            body = _hdr(ttlvref.T_REQUEST_MESSAGE, 1, len(body) + 24) + body
        elif hdr == "alien":
            body = _hdr(0x42007B, 1, len(body)) + body
        return body, {"kind": "raw-" + hdr, "op": "-", "v": "-"}
    try:
        req = _resolve(fr["req"])
        v = tuple(req.get("v", (1, 2)))
        data = H.encode_request(req)
    except core.HarnessError:
        raise
    except Exception:
        return None, "base-unencodable"
    meta = {"op": _first_op(req), "v": "%d.%d" % v if len(v) == 2 else "-"}
    mut = fr.get("mut")
    if not mut:
        meta["kind"] = "valid"
        return data, meta
    try:
        out = mutate(data, mut)
    except core.HarnessError:
        raise
    except Exception:
        return None, "mutation-inapplicable"
    meta["kind"] = str(mut.get("kind")) if out != data else "valid"
    return out, meta


# ------------------------------------------------------------------------------ spies and driver
class StepBudget(Exception):
    pass


_CUR = [None]          # (Obs, connection) of the stream being driven


def install_spies():
    if getattr(messages.RequestMessage.read, "_c12_spy", False):
        return
    real_read = messages.RequestMessage.read

    def read(self, istream, *a, **kw):
        cur = _CUR[0]
        if cur is None:
            return real_read(self, istream, *a, **kw)
        obs, conn = cur
        k = obs.frame_at_end(conn.pos)
        try:
            out = real_read(self, istream, *a, **kw)
        except BaseException as e:
            obs.reads.setdefault(k, []).append("raised:" + type(e).__name__)
            raise
        obs.reads.setdefault(k, []).append("ok")
        return out

    read._c12_spy = True
    messages.RequestMessage.read = read

    real_sread = cutils.BytearrayStream.read

    def sread(self, n=None):
        cur = _CUR[0]
        if cur is not None:
            obs = cur[0]
            obs.steps += 1
            if obs.steps > obs.step_limit:
                obs.budget_hit = True
                raise StepBudget("decoder step budget exceeded")
        return real_sread(self, n)

    cutils.BytearrayStream.read = sread


class Obs(object):
    def __init__(self, stream, frames):
        self.frames = frames
        self.ends = [b for _, b in frames]
        self.starts = set(a for a, _ in frames)
        self.sent = {}
        self.stray = []
        self.errors = {}
        self.engine = {}
        self.reads = {}
        self.dumps = {}
        self.steps = 0
        self.max_steps = 0
        self.step_limit = 10 ** 9
        self.budget_hit = False
        self.recv_calls = 0
        self.loops = 0
        self.closed = False
        self.final_dump = None
        self.copied = False

    def frame_at_end(self, pos):
        i = bisect.bisect_left(self.ends, pos)
        if i < len(self.ends) and self.ends[i] == pos:
            return i
        return -1


class _BudgetExceeded(BaseException):
    """Raised by the scripted connection when the session keeps calling recv far beyond what the
    stream needs (not an Exception: run() must not swallow it)."""


class SpyConn(H.FakeConnection):
    def __init__(self, data, chunks, cert, obs, server, copy_at=None, copy_to=None):
        H.FakeConnection.__init__(self, data, chunks, cert)
        self.obs = obs
        self.server = server
        self.copy_at = copy_at
        self.copy_to = copy_to

    def recv(self, n):
        o = self.obs
        p = self.pos
        if getattr(self, "budget", None) is not None and self.recv_calls > self.budget:
            raise _BudgetExceeded()
        if p not in o.dumps and (p in o.starts or p >= len(self.data)):
            o.dumps[p] = _file_bytes(self.server.db)
            if p == self.copy_at and self.copy_to and not o.copied:
                shutil.copyfile(self.server.db, self.copy_to)
                o.copied = True
            # a new frame starts: new decoder budget
            o.max_steps = max(o.max_steps, o.steps)
            o.steps = 0
            k = bisect.bisect_right(o.ends, p)
            size = (o.frames[k][1] - o.frames[k][0]) if k < len(o.frames) else 0
            o.step_limit = 40 * size + 4000
        return H.FakeConnection.recv(self, n)

    def sendall(self, b):
        H.FakeConnection.sendall(self, b)
        k = self.obs.frame_at_end(self.pos)
        if k < 0:
            self.obs.stray.append(bytes(b))
        else:
            self.obs.sent.setdefault(k, []).append(bytes(b))


def bound_crypto(engine):
    """Bounds of the exploration, not part of the oracle: a mutation can turn a valid request into
    another valid request that asks for hours of work (RSA key pair of 60000 bits, PBKDF2 with
    2**31 iterations).  Such requests are refused by the crypto backend stand-in with a KMIP error,
    like any other unsupported parameter; everything else goes to the real backend."""
    ce = engine._cryptography_engine
    if getattr(ce, "_c12_bounded", False):
        return
    real_pair, real_derive, real_sym = ce.create_asymmetric_key_pair, ce.derive_key, \
        ce.create_symmetric_key

    def pair(algorithm, length, *a, **kw):
        if isinstance(length, int) and length > 4096:
            raise kexc.InvalidField("harness bound: key pair length above 4096")
        return real_pair(algorithm, length, *a, **kw)

    def sym(algorithm, length, *a, **kw):
        if isinstance(length, int) and length > 65536:
            raise kexc.InvalidField("harness bound: key length above 65536")
        return real_sym(algorithm, length, *a, **kw)

    def derive(*a, **kw):
        it = kw.get("iteration_count")
        ln = kw.get("derivation_length")
        if (isinstance(it, int) and it > 100000) or (isinstance(ln, int) and ln > 65536):
            raise kexc.InvalidField("harness bound: derivation cost")
        return real_derive(*a, **kw)

    ce.create_asymmetric_key_pair = pair
    ce.create_symmetric_key = sym
    ce.derive_key = derive
    ce._c12_bounded = True


def drive(server, stream, chunks, copy_at=None, copy_to=None):
    """Run the real message loop over the stream as KmipSession.run does; returns Obs."""
    install_spies()
    bound_crypto(server.engine)
    frames, _ = split_frames(stream)
    obs = Obs(stream, frames)
    conn = SpyConn(stream, chunks, H.make_cert(("alice",), "client"), obs, server, copy_at, copy_to)
    sess = session_mod.KmipSession(server.engine, conn, ("127.0.0.1", 5696), name="verif")
    engine = server.engine
    real = engine.process_request

    def spy(request, credential=None, *a, **kw):
        k = obs.frame_at_end(conn.pos)
        obs.engine[k] = obs.engine.get(k, 0) + 1
        return real(request, credential, *a, **kw)

    engine.process_request = spy
    _CUR[0] = (obs, conn)
    # KmipSession.run() itself is executed (handshake, the loop, shutdown): what it logs with an
    # exception attached is an exception that left _handle_message_loop; a recv budget far above
    # what the stream needs ends a loop that never sees the end of the stream
    conn.budget = 8 * (len(frames) + 4) + 2 * len(stream) + 64

    class _Catch(logging.Handler):
        def emit(self, record):
            # only what run() itself logs: handled errors are logged with their traceback too
            if record.funcName == "run" and record.exc_info and record.exc_info[1] is not None:
                obs.errors.setdefault(obs.frame_at_end(conn.pos), []).append(record.exc_info[1])
                obs.loops += 1

    lg = logging.getLogger("kmip.server.session.verif")
    catch = _Catch()
    lg.addHandler(catch)
    conn.shut = False
    try:
        try:
            sess.run()
            obs.closed = True
        except _BudgetExceeded:
            obs.closed = False
            obs.loops = max(obs.loops, len(frames) + 3)
    finally:
        lg.removeHandler(catch)
        _CUR[0] = None
        try:
            del engine.process_request
        except AttributeError:
            engine.process_request = real
    obs.max_steps = max(obs.max_steps, obs.steps)
    obs.recv_calls = conn.recv_calls
    obs.final_dump = _file_bytes(server.db)
    obs.pos = conn.pos
    return obs


# ------------------------------------------------------------------------------ oracle
def _items(resp):
    try:
        return ttlvref.response_items(resp)
    except Exception:
        return None


def _single_failure(resp, reason):
    it = _items(resp)
    return (it is not None and len(it) == 1 and it[0]["status"] == STATUS_OPERATION_FAILED
            and it[0]["reason"] == reason)


def _brief(resp):
    it = _items(resp)
    if it is None:
        return "unparseable %d bytes" % len(resp)
    return [(i["operation"], i["status"], i["reason"], i["message"]) for i in it]


def _file_bytes(path):
    """The database file as it is (cheap change detector at every frame boundary)."""
    with open(path, "rb") as f:
        return f.read()


def _logical(db_bytes):
    """Table dump (stdlib sqlite3) of a database image."""
    import sqlite3
    d = tempfile.mkdtemp(prefix="c12-img-", dir=os.environ.get("VERIF_TMP"))
    try:
        path = os.path.join(d, "img.db")
        with open(path, "wb") as f:
            f.write(db_bytes)
        con = sqlite3.connect(path)
        try:
            out = {}
            for (t,) in con.execute("select name from sqlite_master where type='table' "
                                    "order by name").fetchall():
                rows = [[H._plain(x) for x in r] for r in con.execute("select * from %s" % t)]
                rows.sort(key=repr)
                out[t] = {"rows": rows}
            return out
        finally:
            con.close()
    finally:
        shutil.rmtree(d, ignore_errors=True)


def _store_changed(before, after):
    """'' when the two database images hold the same rows (sqlite_sequence included), else a
    summary of the difference."""
    if before == after:
        return ""
    a, b = _logical(before), _logical(after)
    if a == b:
        return ""
    return _dump_diff(a, b) or "tables differ"


def _dump_diff(a, b):
    out = []
    for t in sorted(set(a) | set(b)):
        ra = a.get(t, {}).get("rows", [])
        rb = b.get(t, {}).get("rows", [])
        if ra != rb:
            out.append("%s: %d -> %d rows" % (t, len(ra), len(rb)))
    return "; ".join(out)


def _lenient_class(why):
    """Mechanism of a lenient acceptance: a declared length that reaches past the bytes that are
    there (the decoder's reads are clamped), a fixed-size primitive whose length field is wrong
    (ignored by the decoder), anything else (bytes inside a structure that are not an item or not
    a well-formed one, and that the decoder never looked at)."""
    if why in ("length-exceeds-enclosing", "primitive-length"):
        return why
    if why in ("batch-count-exceeds-items", "not-a-batch-item") or why.startswith("header") \
            or why.startswith("message") or why.startswith("top"):
        # message-level shape (the announced batch items are not all there / are not batch items):
        # a different mechanism than surplus bytes inside a payload structure
        return "message-shape|" + why
    return "undecodable-bytes-inside-structure"


_OPNAMES = {1: "Create", 2: "CreateKeyPair", 3: "Register", 4: "Rekey", 5: "DeriveKey", 8: "Locate", 9: "Check",
            10: "Get", 11: "GetAttributes", 12: "GetAttributeList", 13: "AddAttribute", 14: "ModifyAttribute",
            15: "DeleteAttribute", 16: "ObtainLease", 17: "GetUsageAllocation", 18: "Activate", 19: "Revoke",
            20: "Destroy", 21: "Archive", 22: "Recover", 24: "Query", 25: "Cancel", 26: "Poll",
            29: "RekeyKeyPair", 30: "DiscoverVersions", 31: "Encrypt", 32: "Decrypt", 33: "Sign",
            34: "SignatureVerify", 35: "MAC", 36: "MACVerify", 0x2B: "SetAttribute"}


def _frame_operation(fr):
    """Name of the first Operation enumeration found in the frame bytes (spec codes), for the
    bucket key: surplus bytes tolerated by one payload reader are a different root cause than
    surplus bytes tolerated by another."""
    pat = bytes.fromhex("42005c0500000004")
    i = bytes(fr).find(pat)
    if i < 0 or i + 12 > len(fr):
        return "?"
    code = int.from_bytes(fr[i + 8:i + 12], "big")
    return _OPNAMES.get(code, "0x%x" % code)


def _envelope_key(problem):
    """Stable bucket key for one problem reported by ttlvref.check_response_envelope."""
    if problem.startswith("not well-formed TTLV"):
        return "C12|envelope|not well-formed TTLV|" + _classify(problem)
    return "C12|envelope|" + re.sub(r"\bH\b", "N", core.norm_msg(problem))


def check_frames(stream, obs, tail_off, B, info):
    """Per-frame oracle over one run.  B: dict bucket -> detail.  info: per-frame judgement list
    (filled for the caller)."""
    def add(key, detail):
        B.setdefault(key, str(detail)[:1500])

    frames = obs.frames
    for k, (a, b) in enumerate(frames):
        fr = stream[a:b]
        J = judge(fr)
        reads = obs.reads.get(k, [])
        lib_raised = any(r != "ok" for r in reads)
        lib_ok = bool(reads) and not lib_raised
        entered = obs.engine.get(k, 0) > 0
        sent = obs.sent.get(k, [])
        errs = obs.errors.get(k, [])
        undecodable = (not J["ok"]) or lib_raised
        lenient = (not J["ok"]) and lib_ok
        head = fr[:48].hex() + ("..." if len(fr) > 48 else "")
        ctx = "frame %d of %d (%d bytes, %s): judge=%s library=%s engine-entered=%s" % (
            k, len(frames), len(fr), head, "ok" if J["ok"] else J["why"], reads or "not called",
            entered)
        for e in errs:
            add(core.exc_bucket(PID, "loop-exception", e),
                "exception left _handle_message_loop (run() logs it; the client gets no "
                "response): %s: %s\n%s" % (type(e).__name__, e, ctx))
        if not errs and len(sent) != 1:
            add("C12|response-count|%s" % ("none" if not sent else "several"),
                "%d responses for one framed request\n%s" % (len(sent), ctx))
        bind = J["version"] if (J["ok"] and lib_ok and J["version"] in SUPPORTED) else None
        for resp in sent:
            for p in ttlvref.check_response_envelope(resp, bind):
                add(_envelope_key(p), "%s\nresponse %s\n%s" % (p, resp.hex()[:400], ctx))
        before = obs.dumps.get(a)
        after = obs.dumps.get(b, obs.final_dump if k == len(frames) - 1 else None)
        changed = ""
        if before is not None and after is not None:
            changed = _store_changed(before, after)
        if lenient:
            cls = _lenient_class(J["why"])
            if cls == "undecodable-bytes-inside-structure":
                cls += "|op=" + (J.get("bad_op") or _frame_operation(fr))
            add("C12|malformed-accepted|" + cls,
                "the library decoded (and the session processed) a frame that is not well-formed "
                "TTLV: %s; store changed: %s; answer %s\n%s"
                % (J["why"], changed or "no", [_brief(r) for r in sent], ctx))
        elif undecodable:
            if entered:
                add("C12|undecodable|engine-entered",
                    "process_request called %d time(s) for a frame that could not be decoded\n%s"
                    % (obs.engine.get(k, 0), ctx))
            if changed:
                add("C12|undecodable|store-changed", changed + "\n" + ctx)
            for resp in sent:
                if not _single_failure(resp, REASON_INVALID_MESSAGE):
                    add("C12|undecodable|answer-not-invalid-message",
                        "answer %s\n%s" % (_brief(resp), ctx))
        elif entered and len(sent) == 1 and J["count"] is not None:
            # KMIP batch semantics (Batch Error Continuation Option): every item gets a result,
            # or processing stopped at a failed item whose result is the last one
            it = _items(sent[0])
            if it is not None and J["count"] > 0 and 0 < len(it) < J["count"] \
                    and it[-1]["status"] == ttlvref.STATUS_SUCCESS:
                add("C12|partial-execution|fewer-results-than-items-without-failure",
                    "Batch Count %d, %d results, the last one successful: %s\n%s"
                    % (J["count"], len(it), _brief(sent[0]), ctx))
        elif not entered and not errs:
            # decodable by both judgements: nothing may stop it before the engine
            add("C12|decodable|engine-not-entered", "answer %s\n%s" % ([_brief(r) for r in sent], ctx))
        if J["ok"] and lib_ok and J["version"] not in SUPPORTED and changed:
            add("C12|unsupported-version|store-changed", changed + "\n" + ctx)
        if J["ok"] and lib_ok and J["version"] not in SUPPORTED:
            for resp in sent:
                it = _items(resp)
                if not it or len(it) != 1 or it[0]["status"] != STATUS_OPERATION_FAILED:
                    add("C12|unsupported-version|not-refused", "answer %s\n%s" % (_brief(resp), ctx))
        outcome = ("escaped" if errs else "no-answer" if not sent else
                   "lenient-accept" if lenient else
                   "invalid-message" if undecodable else
                   "engine" if entered else "refused-before-engine")
        info.append({"k": k, "a": a, "b": b, "J": J, "undecodable": undecodable,
                     "lenient": lenient, "outcome": outcome, "lib": "raised" if lib_raised else
                     "ok" if lib_ok else "none"})
    # nothing may be sent that is not the one answer to a complete frame
    if obs.stray:
        add("C12|framing|response-at-non-boundary",
            "%d response(s) sent while the stream position was not the end of a complete frame "
            "(first: %s); frames %r tail at %d" % (len(obs.stray), _brief(obs.stray[0]), frames,
                                                   tail_off))
    for e in obs.errors.get(-1, []):
        add(core.exc_bucket(PID, "loop-exception", e),
            "exception left _handle_message_loop at stream position %d which is not the end of a "
            "complete frame: %s: %s" % (obs.pos, type(e).__name__, e))
    if not obs.closed:
        add("C12|budget|loop-did-not-end",
            "%d loop iterations for %d complete frames without ConnectionClosed"
            % (obs.loops, len(frames)))
    if obs.recv_calls > len(stream) + 2 * len(frames) + 4:
        add("C12|budget|recv-calls", "%d recv calls for a %d byte stream with %d frames"
            % (obs.recv_calls, len(stream), len(frames)))
    if obs.budget_hit:
        add("C12|budget|decoder-steps", "more than 40 stream reads per frame byte + 4000")


def _outcome(obs, k):
    return (obs.sent.get(k, []), [type(e).__name__ for e in obs.errors.get(k, [])])


MRS_RELS = ["size-1", "size", "size+1", "one", "zero", "huge"]


def _mrs_value(rel, n):
    return {"size-1": n - 1, "size": n, "size+1": n + 1, "one": 1, "zero": 0,
            "huge": 2 ** 31 - 1}[rel]


def run_case(spec):
    """Returns dict(buckets=[(key, detail)], classes=[...], triples=[[kind, op, v]], bumps={})."""
    B = {}
    classes = []
    bumps = {}
    triples = []

    def add(key, detail):
        B.setdefault(key, str(detail)[:1500])

    def bump(k, n=1):
        bumps[k] = bumps.get(k, 0) + n

    def done():
        return {"buckets": sorted(B.items()), "classes": classes, "triples": triples,
                "bumps": bumps}

    # ---- build
    try:
        good_req = _resolve(spec["good"])
        good = H.encode_request(good_req)
        gv = tuple(good_req.get("v", (1, 2)))
    except core.HarnessError:
        raise
    except Exception:
        classes.append("skipped:good-unencodable")
        return done()
    if not judge(good)["ok"] or gv not in SUPPORTED:
        classes.append("skipped:good-not-valid")
        return done()
    bad = []
    for fr in spec.get("bad", []) or []:
        try:
            data, meta = build_frame(fr)
        except core.HarnessError:
            raise
        except Exception:
            data, meta = None, "frame-spec-broken"
        if data is None:
            classes.append("skipped-frame:" + str(meta))
            continue
        bad.append((data, meta))
    while bad and sum(len(d) for d, _ in bad) + len(good) + 64 > MAX_STREAM:
        bad.pop()
        classes.append("skipped-frame:stream-too-long")
    try:
        chunks1 = [max(1, int(c)) for c in (spec.get("chunks") or [])]
        chunks2 = [max(1, int(c)) for c in (spec.get("chunks2") or [])]
    except Exception:
        chunks1, chunks2 = [], [1]
    prefix = b"".join(d for d, _ in bad)
    good_off = len(prefix)
    planned = []
    o = 0
    for d, meta in bad:
        planned.append((o, o + len(d), meta))
        o += len(d)

    tmp = tempfile.mkdtemp(prefix="c12-", dir=os.environ.get("VERIF_TMP"))
    servers = []
    try:
        # ---- pass 1: natural final request
        stream1 = prefix + good
        frames1, tail1 = split_frames(stream1)
        aligned1 = bool(frames1) and frames1[-1] == (good_off, len(stream1))
        srv1, _ = store.fresh_server()
        servers.append(srv1)
        H.CLOCK.now = T0
        copy_to = os.path.join(tmp, "prefinal.db")
        obs1 = drive(srv1, stream1, chunks1, copy_at=good_off if aligned1 else None,
                     copy_to=copy_to)
        info1 = []
        check_frames(stream1, obs1, tail1, B, info1)

        # ---- evidence: classify the bad frames
        by_extent = {(f["a"], f["b"]): f for f in info1}
        nontrivial = False
        for a, b, meta in planned:
            f = by_extent.get((a, b))
            kind = meta["kind"]
            bump("frames_generated:" + kind)
            classes.append("kind:" + kind)
            if f is None:
                classes.append("frame:misframed-or-swallowing")
                continue
            classes.append("frame:" + f["outcome"])
            if not f["J"]["ok"]:
                classes.append("judge:" + f["J"]["why"])
            if f["undecodable"] and f["J"]["depth"] >= 2:
                nontrivial = True
                triples.append([kind, meta["op"], meta["v"]])
                bump("frames_nontrivial:" + kind)
                classes.append("depth:%d" % f["J"]["depth"])
            elif f["undecodable"]:
                classes.append("depth:%d" % f["J"]["depth"])
        planned_extents = set((a, b) for a, b, _ in planned)
        for f in info1[:-1] if aligned1 else info1:
            if (f["a"], f["b"]) not in planned_extents:
                bump("frames_generated:derived-by-misframing")
                classes.append("frame-derived:" + f["outcome"])
                if f["undecodable"] and f["J"]["depth"] >= 2:
                    nontrivial = True
                    triples.append(["derived-by-misframing", "-", "-"])
        classes.append("nbad:%d" % len(bad))
        classes.append("final:" + ("answered-in-place" if aligned1 else "swallowed-or-misframed"))
        classes.append("sched:" + _sched_class(chunks1))
        classes.append("sched2:" + _sched_class(chunks2))

        # ---- the final request on a fresh connection to a fresh copy of the same store
        natural = None
        last = len(frames1) - 1
        if aligned1 and obs1.copied:
            ref = H.Server(template=copy_to)
            servers.append(ref)
            H.CLOCK.now = T0
            obsr = drive(ref, good, [])
            used, fresh = _outcome(obs1, last), _outcome(obsr, 0)
            if used != fresh:
                add("C12|final-request|answer-differs-from-fresh-connection",
                    "after %d earlier frame(s) on the connection: %s / errors %s; on a fresh "
                    "connection to a copy of the same store: %s / errors %s"
                    % (last, [_brief(r) for r in used[0]], used[1],
                       [_brief(r) for r in fresh[0]], fresh[1]))
            else:
                mask = []
                if len(fresh[0]) == 1:
                    try:
                        mask = hist.random_value_uids(H.response_plain(fresh[0][0], gv))
                    except Exception:
                        mask = []
                sa, sb = hist.snapshot(srv1, mask), hist.snapshot(ref, mask)
                if sa != sb:
                    add("C12|final-request|store-differs-from-fresh-connection",
                        "\n".join(hist.diff(sa, sb)))
            if len(used[0]) == 1 and not used[1] and obs1.reads.get(last) == ["ok"] \
                    and obs1.engine.get(last, 0) == 1:
                natural = used[0][0]
        elif aligned1:
            add("C12|framing|final-frame-not-read-at-its-offset",
                "the final frame starts at %d but no recv was issued at that position" % good_off)

        # ---- pass 2: second schedule, Maximum Response Size in the final request
        rel = spec.get("mrs")
        m = None
        good2 = good
        if rel in MRS_RELS and natural is not None:
            m = _mrs_value(rel, len(natural))
            try:
                good2 = H.encode_request(dict(good_req, max=m))
            except Exception:
                m, good2 = None, good
        classes.append("mrs:" + (rel if m is not None else "none"))
        stream2 = prefix + good2
        frames2, tail2 = split_frames(stream2)
        srv2, _ = store.fresh_server()
        servers.append(srv2)
        H.CLOCK.now = T0
        obs2 = drive(srv2, stream2, chunks2)
        info2 = []
        check_frames(stream2, obs2, tail2, B, info2)
        for k, ext in enumerate(frames1):
            if k < len(frames2) and frames2[k] == ext and stream1[ext[0]:ext[1]] == stream2[ext[0]:ext[1]]:
                o1, o2 = _outcome(obs1, k), _outcome(obs2, k)
                show1 = ([_brief(r) for r in o1[0]], o1[1])
                show2 = ([_brief(r) for r in o2[0]], o2[1])
                final = aligned1 and k == len(frames1) - 1
                if not final and obs1.engine.get(k) and obs2.engine.get(k):
                    # an executed earlier request may answer with fresh randomness (server-side
                    # IV, PSS salt): compare what the answers say, not their bytes
                    o1, o2 = show1, show2
                if o1 != o2:
                    add("C12|chunking|response-depends-on-schedule",
                        "frame %d: schedule %r -> %s / errors %s; schedule %r -> %s / errors %s"
                        % (k, chunks1[:8], show1[0], show1[1], chunks2[:8], show2[0], show2[1]))
        if frames1 == frames2 and stream1 == stream2 and obs1.final_dump != obs2.final_dump:
            m1 = hist.snapshot(srv1, _all_uids(srv1))
            m2 = hist.snapshot(srv2, _all_uids(srv2))
            if m1 != m2:
                add("C12|chunking|store-depends-on-schedule", "\n".join(hist.diff(m1, m2)))
        if m is not None and frames2 and frames2[-1] == (good_off, len(stream2)):
            got = _outcome(obs2, len(frames2) - 1)
            n = len(natural)
            if not got[1] and len(got[0]) == 1:
                resp = got[0][0]
                too_large = _single_failure(resp, REASON_RESPONSE_TOO_LARGE)
                what = "natural response %d bytes, Maximum Response Size %d: answer %s" % (
                    n, m, _brief(resp))
                if n > m:
                    if resp == natural:
                        add("C12|max-response-size|" + ("zero-ignored" if m == 0 else "not-enforced"),
                            what)
                    elif not too_large:
                        add("C12|max-response-size|wrong-answer-when-exceeded", what)
                    else:
                        for p in ttlvref.check_response_envelope(resp, gv):
                            add(_envelope_key(p), "too-large answer: " + p)
                else:
                    if too_large:
                        add("C12|max-response-size|refused-although-it-fits", what)
                    elif resp != natural:
                        add("C12|max-response-size|answer-changed-although-it-fits", what)
        if nontrivial:
            classes.append("nontrivial-case")
    finally:
        for s in servers:
            try:
                s.close()
            except Exception:
                pass
        shutil.rmtree(tmp, ignore_errors=True)
    return done()


def _all_uids(server):
    try:
        t = server.raw_dump()["managed_objects"]
        ui = t["cols"].index("uid")
        return [r[ui] for r in t["rows"]]
    except Exception:
        return []


def _sched_class(chunks):
    if not chunks:
        return "whole"
    if len(chunks) == 1:
        return "const-1" if chunks[0] == 1 else "const-small" if chunks[0] < 16 else "const-large"
    return "mixed"


def replay(spec):
    try:
        store.standard_template()
        return run_case(spec)["buckets"]
    except core.HarnessError:
        raise


# ------------------------------------------------------------------------------ request pools
_POOLS = {}


def pools():
    """Per version: ops -> [item spec] (mutation bases for every operation) and the list of
    deterministic-response items for the final request."""
    if _POOLS:
        return _POOLS
    _, idx = store.standard_template()
    for v in H.VERSIONS:
        by_op = {}
        good = []
        for label, it in hist.pool_items(idx, v):
            by_op.setdefault(it["op"], []).append(it)
            if it["op"] != "CreateKeyPair":
                good.append(it)
        extra = (M.store_menu(idx, v) + M.object_menu(idx["SymmetricKey/ACTIVE"], idx)
                 + M.object_menu(idx["PrivateKey/ACTIVE"], idx)
                 + M.attr_menu(idx["SymmetricKey/PRE_ACTIVE"], v))
        for label, it in extra:
            by_op.setdefault(it["op"], []).append(it)
        _POOLS[v] = {"ops": sorted(by_op), "by_op": by_op, "good": good}
    _POOLS["idx"] = idx
    return _POOLS


def known_path_frames(idx):
    """Valid requests that reach the confirmed defects (kept observable, rarely drawn)."""
    return [
        {"req": {"v": [2, 0], "items": [{"op": "GetAttributes", "uid": idx["SymmetricKey/ACTIVE"],
                                         "names": ["Activation Date"]}]}},
        {"req": {"v": [2, 0], "items": [{"op": "GetAttributes", "uid": idx["OpaqueData/NONE"],
                                         "names": ["Cryptographic Algorithm"]}]}},
        {"req": {"v": [1, 2], "items": [{"op": "Query"}], "count": 0}},
    ]


def lenient_path_frames():
    """One frame per confirmed decoder leniency (see known/C12-*.json)."""
    create = {"v": [1, 2], "items": [{"op": "Create", "attrs": [
        ["Cryptographic Algorithm", "AES"], ["Cryptographic Length", 128],
        ["Cryptographic Usage Mask", 12], ["Name", "only-for-me"]]}]}
    return [
        # cut before the fourth attribute, outer length = what arrived: a key is created
        {"req": create, "mut": {"kind": "trunc", "at": 20, "var": 0, "fix": 2}},
        # Asynchronous Indicator (Boolean) with length field 0 instead of 8
        {"req": {"v": [1, 2], "items": [{"op": "Query"}], "async": False},
         "mut": {"kind": "len", "at": 5, "var": 0, "fix": 0}},
        # eight bytes that are no TTLV item at the end of the request payload
        {"req": {"v": [1, 2], "items": [{"op": "Locate", "attrs": [["Object Type", "SymmetricKey"]]}]},
         "mut": {"kind": "stuff", "at": 3, "var": 7, "fix": 1}},
    ]


HEADER_VARIANTS = [{}, {}, {"max": 1}, {"max": 100}, {"max": 0}, {"max": 2 ** 31 - 1},
                   {"ts": "now"}, {"ts": "stale"}, {"ts": "future"}, {"async": True},
                   {"async": False}, {"cont": "UNDO"}, {"cont": "CONTINUE"}, {"order": True},
                   {"cred": [{"kind": "user", "user": "u", "password": "p"}]},
                   {"cred": [{"kind": "device", "serial": "s", "password": "p"}]}]

SCHEDULES = [[], [1], [2], [3], [7], [8], [9], [16], [64], [4096], [5000], [1, 7], [8, 1],
             [3, 1, 4, 1, 5, 9, 2, 6], [100, 1], [4, 4, 1], [8, 8, 8, 1]]


def case_strategy():
    from hypothesis import strategies as st
    P = pools()
    idx = P["idx"]
    known = known_path_frames(idx)
    big = st.integers(0, 10 ** 6)

    @st.composite
    def request(draw, final=False):
        if final and draw(st.integers(0, 9)) == 0:
            # a valid request whose result the codec refuses to write (the answer is an error made
            # by the session): the size limit of the request applies to that answer too
            return copy.deepcopy(known[draw(st.integers(0, 1))]["req"])
        v = draw(st.sampled_from(H.VERSIONS))
        pv = P[v]
        if final:
            items = [pv["good"][draw(st.integers(0, len(pv["good"]) - 1))]]
            if draw(st.integers(0, 5)) == 0:
                items.append(pv["good"][draw(st.integers(0, len(pv["good"]) - 1))])
        else:
            op = draw(st.sampled_from(pv["ops"]))
            lst = pv["by_op"][op]
            items = [lst[draw(st.integers(0, len(lst) - 1))]]
            if draw(st.integers(0, 7)) == 0:
                op2 = draw(st.sampled_from(pv["ops"]))
                lst2 = pv["by_op"][op2]
                items.append(lst2[draw(st.integers(0, len(lst2) - 1))])
        # Unique Batch Item IDs of the client's choosing (echoed in the answer): one byte as the
        # harness numbers them, or whole multiples of the TTLV alignment (UUID-sized), or odd
        nb = draw(st.sampled_from([None, None, None, 8, 16, 24, 5]))
        if nb is not None:
            items = [dict(it, bid=("%02x" % (k + 1)) * nb) for k, it in enumerate(items)]
        req = {"v": list(v), "items": items}
        if len(items) > 1 and draw(st.booleans()):
            req["cont"] = "CONTINUE"
        return req

    @st.composite
    def frame(draw):
        kind = draw(st.sampled_from(KINDS + KINDS + ["raw", "raw", "valid", "valid", "known"]))
        if kind == "raw":
            n = draw(st.sampled_from([0, 1, 7, 8, 9, 16, 40, 200]))
            body = draw(st.binary(min_size=0, max_size=n))
            return {"raw": body.hex(),
                    "hdr": draw(st.sampled_from(["none", "none", "exact", "exact", "short", "long",
                                                 "alien"]))}
        if kind == "known":
            if draw(st.integers(0, 3)) == 0:
                return known[draw(st.integers(0, len(known) - 1))]
            kind = "valid"
        req = draw(request())
        if kind == "valid":
            req = dict(req, **draw(st.sampled_from(HEADER_VARIANTS)))
            if draw(st.integers(0, 9)) == 0 and len(req["items"]) > 1:
                req["items"] = [dict(it, bid=None) for it in req["items"]]
            return {"req": req}
        if draw(st.integers(0, 3)) == 0:
            req = dict(req, **draw(st.sampled_from(HEADER_VARIANTS)))
        return {"req": req, "mut": {"kind": kind, "at": draw(big), "var": draw(big),
                                    "fix": draw(st.integers(0, 2))}}

    sched = st.one_of(st.sampled_from(SCHEDULES),
                      st.lists(st.integers(1, 300), min_size=1, max_size=12))

    @st.composite
    def case(draw):
        nbad = draw(st.sampled_from([0, 1, 1, 1, 1, 2, 2, 3, 5, 6, 9, 12]))
        return {"bad": [draw(frame()) for _ in range(nbad)],
                "good": draw(request(final=True)),
                "mrs": draw(st.sampled_from([None, None, None] + MRS_RELS)),
                "chunks": draw(sched), "chunks2": draw(sched)}

    return case()


# ------------------------------------------------------------------------------ part A: sweep
def sweep_units():
    """[(version, op, item, n_nodes)] - one representative valid request per operation/version."""
    P = pools()
    out = []
    for v in H.VERSIONS:
        for op in P[v]["ops"]:
            it = P[v]["by_op"][op][0]
            try:
                data = H.encode_request({"v": list(v), "items": [it]})
            except Exception:
                continue
            out.append((v, op, it, len(walk(data))))
    return out


def sweep_variants():
    """Mutations applied at every node i of a representative request."""
    out = []
    for fix in (2, 0):
        out.append(("trunc", 0, fix))                # at the boundary before node i
    out.append(("trunc", 1 + 3 * 3, 2))              # inside its header
    out.append(("trunc", 2 + 3 * 1, 2))              # inside its value
    out.append(("trunc", 2 + 3 * 5, 0))
    for var in range(LEN_VARIANTS):
        out.append(("len", var, 0))
    for var in (0, 1, 11, 13):
        out.append(("type", var, 0))
    out.append(("del", 0, 1))
    out.append(("del", 0, 2))
    out.append(("dup", 0, 1))
    out.append(("retype", 0, 1))
    out.append(("retype", 1, 1))
    out.append(("retype", 3, 1))
    out.append(("tag", 1, 0))
    out.append(("pad", 0, 0))
    return out


def sweep_cells():
    """Lazy enumeration of (index, version, op, item, node, (kind, var, fix))."""
    n = 0
    variants = sweep_variants()
    for v, op, it, nn in sweep_units():
        for i in range(nn):
            for var in variants:
                yield n, v, op, it, i, var
                n += 1


def sweep_spec(n, v, op, it, i, var):
    P = pools()
    gv = H.VERSIONS[n % len(H.VERSIONS)]
    good = P[gv]["good"]
    kind, vr, fix = var
    at = i
    return {"bad": [{"req": {"v": list(v), "items": [it]},
                     "mut": {"kind": kind, "at": at, "var": vr, "fix": fix}}],
            "good": {"v": list(gv), "items": [good[(n // 7) % len(good)]]},
            "mrs": ([None] * 5 + MRS_RELS)[(n // 3) % (5 + len(MRS_RELS))],
            "chunks": SCHEDULES[n % len(SCHEDULES)],
            "chunks2": SCHEDULES[(n // len(SCHEDULES) + 1) % len(SCHEDULES)]}


def _record(col, spec, res):
    nt = bool(res["triples"])
    col.record(spec, nontrivial=nt, classes=res["classes"], buckets=res["buckets"])
    if nt:
        col.nontrivial.discard(core.spec_hash(spec))
        for t in res["triples"]:
            col.nontrivial.add(core.spec_hash(t))
    for k, n in res["bumps"].items():
        col.bump(k, n)


def worker_sweep(shard, nshards, seed, keep_one_in):
    """keep_one_in = 1: the whole sweep; k: a seed-dependent 1/k sample of it."""
    col = core.Collector(PID)
    store.standard_template()
    for n, v, op, it, i, var in sweep_cells():
        if n % nshards != shard:
            continue
        if keep_one_in > 1 and core.derive_seed(seed, "sweep", n) % keep_one_in != 0:
            col.bump("sweep_cells_not_sampled")
            continue
        spec = sweep_spec(n, v, op, it, i, var)
        _record(col, spec, run_case(spec))
        col.bump("sweep_cells_run")
    return col


def worker_random(seed, n):
    col = core.Collector(PID)
    store.standard_template()

    def one(spec):
        _record(col, spec, run_case(spec))
        col.bump("random_streams")

    core.draw_examples(case_strategy(), n, seed, one)
    return col


def fixed_cases():
    """Deterministic cases that keep every confirmed defect observable in every run."""
    P = pools()
    idx = P["idx"]
    q = {"v": [1, 2], "items": [{"op": "Query"}]}
    out = []
    for fr in known_path_frames(idx):
        out.append({"bad": [fr], "good": q, "mrs": None, "chunks": [], "chunks2": [1]})
    out.append({"bad": [], "good": q, "mrs": "zero", "chunks": [], "chunks2": [3]})
    for fr in lenient_path_frames():
        out.append({"bad": [fr], "good": q, "mrs": None, "chunks": [], "chunks2": [1]})
    # connection state must not outlive a request: a small maximum, then a request without one
    out.append({"bad": [{"req": dict(q, max=1)}, {"req": dict(q, max=300)}], "good": q,
                "mrs": None, "chunks": [7], "chunks2": []})
    # requests the engine refuses at header level, under every version
    for v in H.VERSIONS:
        for hv in ({"async": True}, {"ts": "stale"}, {"cont": "UNDO"}):
            out.append({"bad": [{"req": dict({"v": list(v), "items": [{"op": "Query"}]}, **hv)}],
                        "good": q, "mrs": "size", "chunks": [3], "chunks2": [8, 1]})
    return out


def worker_fixed():
    col = core.Collector(PID)
    store.standard_template()
    for spec in fixed_cases():
        _record(col, spec, run_case(spec))
        col.bump("fixed_cases")
    return col


# ------------------------------------------------------------------------------ part C: atheris
def _fuzz_start(ctx, corpus_kind):
    runs = int(os.environ.get("VERIF_C12_FUZZ_RUNS", "60000"))
    if corpus_kind == "empty":
        runs *= 2           # inputs stay tiny until a frame header is found: cheap iterations
    out = tempfile.mkdtemp(prefix="c12-fuzz-%s-" % corpus_kind)
    cmd = [sys.executable, "-m", "vlib.c12_fuzz", out, str(ctx.seed), str(runs), corpus_kind]
    log = open(os.path.join(out, "log.txt"), "wb")
    import time
    proc = subprocess.Popen(cmd, stdout=log, stderr=subprocess.STDOUT)
    return {"proc": proc, "out": out, "log": log, "t0": time.time(), "runs": runs,
            "kind": corpus_kind,
            "limit": int(os.environ.get("VERIF_C12_FUZZ_SECONDS", "1200"))}


def _fuzz_collect(fz, col):
    import time
    note = "completed"
    try:
        rc = fz["proc"].wait(timeout=max(5, fz["limit"] - (time.time() - fz["t0"])))
        if rc != 0:
            note = "fuzzer exit %d" % rc
    except subprocess.TimeoutExpired:
        fz["proc"].kill()
        fz["proc"].wait()
        note = "stopped at the %ds time limit" % fz["limit"]
    fz["log"].close()
    try:
        with open(os.path.join(fz["out"], "workdir.txt")) as f:
            shutil.rmtree(f.read().strip(), ignore_errors=True)
    except OSError:
        pass
    tag = "fuzz_%s_" % fz["kind"]
    path = os.path.join(fz["out"], "findings.json")
    if not os.path.exists(path):
        try:
            with open(os.path.join(fz["out"], "log.txt"), "rb") as f:
                tail = f.read()[-300:].decode("utf-8", "replace")
        except OSError:
            tail = ""
        col.extra[tag + "stage"] = "skipped (%s) %s" % (note, tail)
        shutil.rmtree(fz["out"], ignore_errors=True)
        return
    with open(path) as f:
        data = json.load(f)
    for key, info in sorted(data["findings"].items()):
        col.add_bucket(key, info["spec"], "found by the atheris stage (%s corpus): %s"
                       % (fz["kind"], info.get("detail", "")))
    for k, val in data["stats"].items():
        col.extra[tag + k] = val
    col.extra[tag + "runs_requested"] = fz["runs"]
    col.extra[tag + "stage"] = note
    shutil.rmtree(fz["out"], ignore_errors=True)


# ------------------------------------------------------------------------------ entry point
NSHARDS = 16


def run(ctx):
    store.standard_template()
    pools()
    fuzz = []
    if not ctx.quick:
        fuzz = [_fuzz_start(ctx, "seeded"), _fuzz_start(ctx, "empty")]
    total = sum(1 for _ in sweep_cells())
    keep = 1 if not ctx.quick else max(1, total // 1400)
    dicts = core.run_sharded("vlib.props.c12", "worker_fixed", [()])
    dicts += core.run_sharded("vlib.props.c12", "worker_sweep",
                              [(s, NSHARDS, ctx.seed, keep) for s in range(NSHARDS)])
    per = ctx.n(130, 2500)
    dicts += core.run_sharded("vlib.props.c12", "worker_random",
                              [(core.derive_seed(ctx.seed, "c12-rnd", s), per)
                               for s in range(NSHARDS)])
    col = core.merged(PID, dicts)
    col.extra["sweep_cells_total"] = total
    col.extra["sweep_sample_one_in"] = keep
    if keep == 1:
        if col.extra.get("sweep_cells_run") != total:
            raise core.HarnessError("sweep not fully enumerated: %r of %d"
                                    % (col.extra.get("sweep_cells_run"), total))
        col.extra["sweep_exhaustive"] = True
    for fz in fuzz:
        _fuzz_collect(fz, col)
    return col
