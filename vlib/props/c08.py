"""C08 - batch results are complete and failed items leave no trace."""
import copy

from hypothesis import strategies as st

from vlib import core, harness as H, hist, store
from vlib import fixtures as F

PID = "C08"
LEVEL = "exploration"
RULE = ("Hypothesis-generated batches of 1-6 items over all supported operations (items built to "
        "succeed or to fail: unknown / destroyed / foreign identifier, invalid field, illegal state, "
        "read-only or missing attribute, unsupported operation, commit-time failure), unique batch "
        "item ids all / none / some / duplicated, option absent / Stop / Continue / Undo, batch order "
        "option, ID-placeholder items, KMIP 1.0-2.0, on a copy of a standard store. Which items fail is "
        "read off the response. Oracles: structure (processed prefix, order, echo of operation and "
        "id, stop-on-first-failure unless Continue, placeholder resolves to the object created "
        "earlier in the batch); metamorphic: the same batch without the items that reported failure "
        "(and: without only the first failed item), run on a byte copy of the database taken before "
        "the batch, must give the same results for the remaining items and the same final raw "
        "tables (identifiers compared exactly); a request-level error must leave the database "
        "unchanged. non-trivial = >=2 items with a failure not in last position, or a placeholder use")
ASSUMPTIONS = ["responses of the generated items are deterministic given store and clock (IVs "
               "supplied; generated key material masked)",
               "for CreateKeyPair the placeholder may denote either key of the pair"]

CREATORS = ("Create", "Register", "DeriveKey", "CreateKeyPair")


@st.composite
def gen_batch(draw):
    _, idx = store.standard_template()
    v = draw(st.sampled_from(H.VERSIONS))
    pool = hist.pool_items(idx, v)
    oks = [i for l, i in pool if l.startswith("ok/")]
    fails = [i for l, i in pool if l.startswith("fail/")]
    fails.append({"op": "Register", "obj": dict(F.obj_spec("SplitKey", "ovf"), prime=2 ** 63, method="POLYNOMIAL_SHARING_PRIME_FIELD"),
                  "attrs": [["Cryptographic Usage Mask", 12]]})       # fails at commit time
    # state-changing items that are valid but for an optional value at the edge of its range
    # (whether such an item succeeds or fails, it does so as a whole)
    for tgt in ("SymmetricKey/ACTIVE", "PrivateKey/ACTIVE", "SymmetricKey/PRE_ACTIVE"):
        for code in ("KEY_COMPROMISE", "CESSATION_OF_OPERATION"):
            for d in (2 ** 62, -2 ** 62, 2 ** 31, 0, -1):
                fails.append({"op": "Revoke", "uid": idx[tgt], "code": code, "cdate": d})
    n = draw(st.sampled_from([1, 2, 2, 3, 3, 4, 5, 6]))
    items = []
    if draw(st.integers(0, 9)) == 0 and tuple(v) < (2, 0):
        # an object with several instances of the multi-valued attributes, then identifier-less
        # attribute operations on it - among them the ones that make two instances equal
        multi = [["Name", "m-one", 0], ["Name", "m-two", 1], ["Object Group", "gA", 0], ["Object Group", "gB", 1],
                 ["Application Specific Information", {"ns": "n", "data": "1"}, 0],
                 ["Application Specific Information", {"ns": "n", "data": "2"}, 1]]
        items.append(F.register_item("SymmetricKey", label="c08m", extra_attrs=multi))
        for _ in range(draw(st.integers(1, 3))):
            attr, a0, a1 = draw(st.sampled_from([("Name", "m-one", "m-two"), ("Object Group", "gA", "gB"),
                                                 ("Application Specific Information", {"ns": "n", "data": "1"},
                                                  {"ns": "n", "data": "2"})]))
            how = draw(st.sampled_from(["dup-1", "dup-0", "fresh-1", "del-0", "del-1", "bad-index"]))
            if how == "dup-1":
                items.append({"op": "ModifyAttribute", "attr": [attr, a0, 1]})
            elif how == "dup-0":
                items.append({"op": "ModifyAttribute", "attr": [attr, a1, 0]})
            elif how == "fresh-1":
                items.append({"op": "ModifyAttribute", "attr": [attr, a0 if attr.startswith("App") else "fresh", 1]})
            elif how.startswith("del"):
                items.append({"op": "DeleteAttribute", "name": attr, "index": int(how[-1])})
            else:
                items.append({"op": "ModifyAttribute", "attr": [attr, a0, 7]})
        items.append({"op": "GetAttributes"})
        n = 0
    elif draw(st.integers(0, 5)) == 0:
        # a creating item, then items that name other objects (reads, Locates, state changes),
        # then an identifier-less item: the placeholder still denotes the created object
        creators = [i for l, i in pool if l.startswith("ok/") and i["op"] in CREATORS]
        between = [i for l, i in pool if l.startswith(("ok/Locate", "ok/Get", "ok/Query", "ok/Activate",
                                                       "fail/Get", "ok/Encrypt"))]
        items.append(copy.deepcopy(draw(st.sampled_from(creators))))
        for _ in range(draw(st.integers(1, 2))):
            items.append(copy.deepcopy(draw(st.sampled_from(between))))
        op = draw(st.sampled_from(["Get", "GetAttributes", "Activate", "GetAttributeList", "Destroy"]))
        items.append(hist.placeholder_item(op, v))
        n = 0
    for k in range(n):
        kind = draw(st.sampled_from(["ok", "ok", "ok", "fail", "fail", "placeholder"]))
        if kind == "ok":
            it = draw(st.sampled_from(oks))
        elif kind == "fail":
            it = draw(st.sampled_from(fails))
        else:
            op = draw(st.sampled_from(hist.PLACEHOLDER_OPS))
            if op in ("Encrypt", "MAC", "Sign") and tuple(v) < (1, 2):
                op = "Get"
            it = hist.placeholder_item(op, v)
        items.append(copy.deepcopy(it))
    ids = draw(st.sampled_from(["all", "all", "all", "all", "none", "some", "dup", "long"]))
    for k, it in enumerate(items):
        if ids == "all":
            it["bid"] = "%02x" % (k + 1)
        elif ids == "none":
            it["bid"] = None
        elif ids == "some":
            it["bid"] = ("%02x" % (k + 1)) if draw(st.booleans()) else None
        elif ids == "dup":
            it["bid"] = "aa"
        else:
            it["bid"] = ("%02x" % (k + 1)) * draw(st.sampled_from([1, 8, 33]))
    spec = {"v": list(v), "who": "alice", "items": items,
            "cont": draw(st.sampled_from([None, None, "STOP", "CONTINUE", "CONTINUE", "CONTINUE", "UNDO"])),
            "order": draw(st.sampled_from([None, None, True, False]))}
    # one case in three also travels over a real connection, behind an earlier request that
    # asked for a small Maximum Response Size of its own
    spec["behind"] = draw(st.sampled_from([None, None, None, None, 256, 1024]))
    return spec


NOW = 1_700_000_500


def _send(server, spec, items):
    req = {"v": spec["v"], "items": items}
    if spec.get("cont") is not None:
        req["cont"] = spec["cont"]
    if spec.get("order") is not None:
        req["order"] = spec["order"]
    H.CLOCK.now = NOW
    data = H.encode_request(req)
    r = server.process(data, (spec.get("who", "alice"), None))
    if r["resp"] is not None:
        r["items"] = H.response_plain(r["resp"], tuple(spec["v"]))
    else:
        r["items"] = None
    return r


def _norm_item(it, masked):
    """Results that depend on key material the server generated at random (a key made by Create /
    CreateKeyPair in this batch, or derived from one) differ between two runs by design: the
    material itself and whatever is computed with it are masked."""
    it = copy.deepcopy(it)
    p = it.get("payload")
    if p and isinstance(p, dict) and str(p.get("uid")) in set(str(m) for m in masked):
        if p.get("secret"):
            p["secret"]["value"] = "<masked>"
        for k in ("sig", "data", "mac", "tag", "iv", "valid"):
            if p.get(k) is not None:
                p[k] = "<masked>"
    return it


def _random_uids(items, R):
    """Identifiers of the objects of a response whose value is random: made by Create /
    CreateKeyPair, or derived (DeriveKey) from such an object or from the ID placeholder."""
    mask = set(str(u) for u in hist.random_value_uids(R))
    for it, r in zip(items, R):
        if it["op"] == "DeriveKey" and r["status"] == "SUCCESS" and r.get("payload"):
            bases = it.get("uids")
            if not bases or any(str(b) in mask for b in bases):
                if mask or not bases:
                    mask.add(str(r["payload"].get("uid")))
    return sorted(mask)


def run_case(spec):
    buckets = []
    classes = []
    items = spec["items"]
    n = len(items)
    idless = [k for k, it in enumerate(items) if it["op"] in hist.PLACEHOLDER_OPS and it.get("uid") is None
              and "uids" not in it]
    srv, idx = store.fresh_server()
    s0 = hist.snapshot(srv)
    others = []
    nontrivial = False
    try:
        try:
            r = _send(srv, spec, items)
        except Exception:
            return [], False, ["unencodable"]
        if r["stage"] == "decode":
            return [], False, ["decoder-refused"]
        if r["items"] is None:
            # request-level error: nothing may have taken effect
            classes.append("request-level-error")
            s1 = hist.snapshot(srv)
            if s1 != s0:
                buckets.append(("C08|request-level-error-after-items-executed|%s" % type(r["error"]).__name__,
                                "error=%r\n%s" % (r["error"], "\n".join(hist.diff(s0, s1)))))
            from kmip.core import exceptions as kexc
            if not isinstance(r["error"], kexc.KmipError):
                classes.append("request-level-internal-error")
            return buckets, n >= 2, classes
        R = r["items"]
        cont = spec.get("cont") == "CONTINUE"
        # ---- structure
        if len(R) > n:
            buckets.append(("C08|structure|more-results-than-items", repr(R)))
        for k, it in enumerate(R[:n]):
            if it["op"] != items[k]["op"]:
                buckets.append(("C08|structure|operation-not-echoed-in-order", "pos %d: %r vs %r" % (k, it["op"], items[k]["op"])))
            want = items[k].get("bid")
            if (want or None) != (it["bid"] or None):
                buckets.append(("C08|structure|batch-item-id-not-echoed", "pos %d: %r vs %r" % (k, it["bid"], want)))
        failed = [k for k, it in enumerate(R) if it["status"] != "SUCCESS"]
        if cont:
            if len(R) != n:
                buckets.append(("C08|structure|continue-but-results-missing", "%d results for %d items" % (len(R), n)))
        else:
            if failed and failed[0] != len(R) - 1:
                buckets.append(("C08|structure|processing-continued-after-failure-without-continue", repr([i["status"] for i in R])))
            if not failed and len(R) != n:
                buckets.append(("C08|structure|results-missing-without-failure", "%d results for %d items" % (len(R), n)))
        classes.append("failed:%d/%d" % (len(failed), len(R)))
        if any(R[k]["reason"] == "GENERAL_FAILURE" for k in failed):
            classes.append("has-general-failure")
        # ---- placeholder
        last_created = None
        for k, it in enumerate(R[:n]):
            if k in idless and last_created is not None:
                nontrivial = True
                classes.append("placeholder-use")
                p = it.get("payload") or {}
                if it["status"] == "SUCCESS" and p.get("uid") is not None and str(p["uid"]) not in last_created:
                    buckets.append(("C08|placeholder|item-addressed-another-object", "pos %d uid %r, created %r" % (k, p.get("uid"), last_created)))
            if it["status"] == "SUCCESS" and it["op"] in CREATORS:
                cu = hist.created_uids([it])
                if cu:
                    last_created = [str(u) for u in cu]
        if len(R) >= 2 and failed and failed[0] < len(R) - 1:
            nontrivial = True
        # ---- metamorphic: drop failed items
        mask = _random_uids(items, R)
        sA = hist.snapshot(srv, mask)
        keep = [k for k in range(len(R)) if k not in failed]
        variants = [("without-failed-items", keep)]
        if cont and failed and len(failed) > 1 or (cont and failed and failed[0] < len(R) - 1):
            variants.append(("without-first-failed-item", [k for k in range(len(R)) if k != failed[0]]))
        for label, ks in variants:
            if ks == list(range(len(R))):
                continue
            if not ks:
                if sA != s0 and not mask:
                    buckets.append(("C08|failed-item-left-a-trace|all-items-failed", "\n".join(hist.diff(s0, sA))))
                continue
            o = store.fresh_server()[0]
            others.append(o)
            sub = [items[k] for k in ks]
            if len(sub) > 1 and any(not i.get("bid") for i in sub):
                continue
            r2 = _send(o, spec, sub)
            if r2["items"] is None:
                buckets.append(("C08|metamorphic|%s|reduced-batch-refused" % label, repr(r2.get("error"))))
                continue
            R2 = r2["items"]
            mask2 = _random_uids(sub, R2)
            exp = [_norm_item(R[k], set(mask)) for k in ks]
            got = [_norm_item(x, set(mask2)) for x in R2]
            if exp != got:
                # name the first differing item
                d = next((j for j in range(min(len(exp), len(got))) if exp[j] != got[j]), min(len(exp), len(got)))
                trig = "%s:%s" % (R[failed[0]]["op"], R[failed[0]]["reason"])
                buckets.append(("C08|metamorphic|%s|later-item-result-depends-on-failed-item|trigger=%s" % (label, trig),
                                "with failed items: %r\nwithout: %r" % (exp[d] if d < len(exp) else None, got[d] if d < len(got) else None)))
            sB = hist.snapshot(o, mask2)
            if label == "without-failed-items" and sA != sB:
                fops = sorted(set("%s:%s" % (R[k]["op"], R[k]["reason"]) for k in failed))
                buckets.append(("C08|failed-item-left-a-trace|" + ",".join(fops)[:120], "\n".join(hist.diff(sB, sA))))
    finally:
        srv.close()
        for o in others:
            o.close()
    seen = {}
    for k, d in buckets:
        seen.setdefault(k, d)
    return list(seen.items()), nontrivial, classes


def run_behind(spec):
    """The batch as the second request of a connection whose first request (a Query) carried a
    Maximum Response Size: what the client receives for the batch is what the engine answers
    when it gets the batch alone - every executed item reported, nothing replaced."""
    items = spec["items"]
    req = {"v": spec["v"], "items": items}
    for k in ("cont", "order"):
        if spec.get(k) is not None:
            req[k] = spec[k]
    first = {"v": spec["v"], "items": [{"op": "Query"}], "max": spec["behind"]}
    try:
        data = H.encode_request(first) + H.encode_request(req)
    except Exception:
        return [], ["behind:unencodable"]
    a, b = store.fresh_server()[0], store.fresh_server()[0]
    buckets = []
    try:
        H.CLOCK.now = NOW
        conn, errors = a.session(data, cn=spec.get("who", "alice"), max_loops=6)
        if errors or len(conn.sent) != 2:
            return [], ["behind:session-irregular"]       # C12's business
        r = _send(b, spec, items)
        if r["items"] is None:
            return [], ["behind:request-level-error"]
        try:
            got = H.response_plain(conn.sent[1], tuple(spec["v"]))
        except Exception:
            return [], ["behind:answer-unreadable"]
        exp = [_norm_item(x, set(_random_uids(items, r["items"]))) for x in r["items"]]
        got_n = [_norm_item(x, set(_random_uids(items, got))) for x in got]
        if exp != got_n:
            sa, sb = hist.snapshot(a, _random_uids(items, r["items"])), hist.snapshot(b, _random_uids(items, r["items"]))
            what = "and-the-store-is-as-if-executed" if sa == sb else "store-differs-too"
            buckets.append(("C08|behind-earlier-request|answer-differs-from-the-engine's|" + what,
                            "first request: Query with Maximum Response Size %s\nclient received: %r\nengine answers: %r"
                            % (spec["behind"], got_n[:3], exp[:3])))
        return buckets, ["behind:%s" % spec["behind"]]
    finally:
        a.close()
        b.close()


def replay(spec):
    b = run_case(spec)[0]
    if spec.get("behind"):
        b = b + run_behind(spec)[0]
    return b


def worker(n, seed):
    col = core.Collector(PID)

    def one(spec):
        b, nt, cl = run_case(spec)
        if spec.get("behind") and "unencodable" not in cl and "decoder-refused" not in cl:
            b2, cl2 = run_behind(spec)
            b, cl = b + b2, cl + cl2
        cl = cl + ["opt:%s" % spec.get("cont"), "n:%d" % len(spec["items"])]
        col.record(spec, nontrivial=nt, classes=cl, buckets=b)

    core.draw_examples(gen_batch(), n, seed, one)
    return col


def run(ctx):
    store.standard_template()
    n = core.NCPU
    total = ctx.n(4800, 64000)
    dicts = core.run_sharded("vlib.props.c08", "worker",
                             [(total // n, core.derive_seed(ctx.seed, "c08", i)) for i in range(n)])
    return core.merged(PID, dicts)
