"""C16 - protocol version is honoured: echo, refusal, and feature gating.

Parts (spec["part"]):
 a   version x operation: echo of the request version / refusal of unsupported versions
 b   operation x version against the specification's introduction table
 c1  attribute x version x carrier: an attribute is not accepted below its version
 c2  GetAttributes / GetAttributeList never name an attribute outside the request version
 d1  codec table, over-specified: a writer must not emit a later-version field that the reader
     of the same class under the same version rejects or drops (raw library objects)
 d3  requests emitted by ProxyKmipClient methods under each version (+ the answers)
 d4  requests carrying a later-version field are not answered with success
 e   DiscoverVersions (generated client lists) vs Query probes under each version
 f   Query: every advertised operation is available under that version
 g   several requests of different versions on ONE connection: each answer is in the version of
     its own request (header, tags, bytes equal to the answer on a connection of its own)
Every server response seen in any part goes through the later-version tag check (d2).
"""
import copy
import logging

from hypothesis import strategies as st

from vlib import core, harness as H, store, ttlvref as R
from vlib import fixtures as F
from vlib import c16_tables as S

PID = "C16"
LEVEL = "exploration"
RULE = ("mostly exhaustive small products over literal tables taken from the KMIP specifications "
        "(operation, attribute and tag introduction versions): (a) 13 versions (6 supported, 7 "
        "unsupported) x one valid request per operation through the decoder+engine, the real "
        "session loop and (unsupported versions) the engine interface; (b) 53 operations x 6 "
        "versions x {native encoding, encoding of the introduction version}; (c) 18 later "
        "attributes (+2 controls) x 6 versions x 8 carriers (Create, Register, CreateKeyPair x3, "
        "DeriveKey, ModifyAttribute, Locate), and attribute reads of objects "
        "carrying Sensitive / Operation Policy Name under every version; (d1) every row of "
        "vlib/codec_table.py x version, one out-of-interval field at a time (Hypothesis values), "
        "(d3) every ProxyKmipClient method x version against the real server, (d4) a menu of "
        "over-specified requests x version; (e) Hypothesis client lists for DiscoverVersions "
        "(supported/unsupported mixtures, duplicates, any order) x request version; (f) Query x "
        "version x function set, then one minimal valid request per advertised operation; (d2) the "
        "shared request menus of vlib.menus x version (quick: every 8th entry, offset by the seed). "
        "Below its version an operation is also handed to the engine interface directly (codec "
        "bypassed). Every server response is parsed by ttlvref and scanned for tags of later "
        "versions. non-trivial = the cell lies on a gate boundary: the request version equals the "
        "introduction (or removal) version of the operation / attribute / field under test or is "
        "the supported version just below it (d3: also 1.4 and 2.0 for calls that carry attributes "
        "- the Template-Attribute / Attributes switch; f: every version is the boundary of some "
        "advertised operation's gate); for (a) and the acceptance probes every supported version "
        "and the unsupported versions adjacent to one (0.9, 1.5, 1.9, 2.1); for (e) lists mixing "
        "accepted and refused versions; distinct by canonical spec hash; counts per part in "
        "boundary_cells_per_part")
ASSUMPTIONS = [
    "introduction / removal versions are literal tables in vlib/c16_tables.py copied from the "
    "KMIP specifications 1.0-2.0 (tag blocks of the tag table, operation and attribute chapters)",
    "'executed' is observed three ways: a success item, a raw SQLite difference, and a spy (the "
    "handler's first log line 'Processing operation: X' on kmip.server.engine plus calls of the "
    "engine's object-access helpers)",
    "Operation Policy Name (deprecated by 1.3) and Certificate Identifier/Subject/Issuer "
    "(deprecated by 1.1) stay defined until 1.4: reporting them under 1.x is accepted either way, "
    "only their absence under 2.0 is demanded",
    "what header version an error response to an unsupported or undecodable request carries is "
    "left open by the statement and not judged",
    "over-specified raw library objects are not 'sent by the server/client': they are judged only "
    "when the writer emits a later-version field that the class's own reader under the same "
    "version rejects or drops (control: the same value without that field round-trips)",
    "a list with repeated versions is 'newest first' when it is non-increasing",
]
SHRINK_BUDGET = 40

SUP = S.SUPPORTED
T_OPERATION = 0x42005C
T_ATTRIBUTES_FAMILY = (0x420125, 0x420126, 0x420127, 0x420128)

# ------------------------------------------------------------------ observation: spy
logging.getLogger("kmip.server.session").addHandler(logging.NullHandler())


class _Spy(logging.Handler):
    def __init__(self):
        logging.Handler.__init__(self, logging.INFO)
        self.seen = []

    def emit(self, record):
        try:
            msg = record.getMessage()
        except Exception:
            return
        if msg.startswith("Processing operation:"):
            self.seen.append("log:" + msg.split(":", 1)[1].strip())


_SPY = None
_HELPERS = ("_get_object_with_access_controls", "_list_objects_with_access_controls",
            "_process_template_attribute")


def _spy():
    global _SPY
    if _SPY is None:
        H.engine_capture()
        _SPY = _Spy()
        lg = logging.getLogger("kmip.server.engine")
        lg.addHandler(_SPY)
        lg.setLevel(logging.INFO)
    return _SPY


def _hook(server):
    spy = _spy()
    eng = server.engine
    for name in _HELPERS:
        orig = getattr(eng, name, None)
        if orig is None:
            continue

        def wrapper(*a, _o=orig, _n=name, **k):
            spy.seen.append("call:" + _n)
            return _o(*a, **k)
        setattr(eng, name, wrapper)
    return spy


def _dump_diff(a, b):
    out = []
    for t in sorted(set(a) | set(b)):
        ra = {repr(r) for r in a.get(t, {}).get("rows", [])}
        rb = {repr(r) for r in b.get(t, {}).get("rows", [])}
        if ra != rb:
            out.append("%s: -%d +%d rows" % (t, len(ra - rb), len(rb - ra)))
    return out


# ------------------------------------------------------------------ request encoding
def encode_as(req_spec, enc_v):
    """Library encoding of a request spec whose header carries req_spec['v'] while the message
    body is written with the rules of version enc_v."""
    from kmip.core import utils as cutils
    req = H.build_request(req_spec)
    s = cutils.BytearrayStream()
    req.write(s, kmip_version=H.KV(tuple(enc_v)))
    return bytes(s.buffer)


def _enc_version(v):
    return R.encode_struct(R.T_PROTOCOL_VERSION, [
        R.encode_integer(R.T_PROTOCOL_VERSION_MAJOR, v[0]),
        R.encode_integer(R.T_PROTOCOL_VERSION_MINOR, v[1])])


def raw_request(v, op_code, payload_children=()):
    """Reference-encoded single-item request (for operations the library has no payload for)."""
    hdr = R.encode_struct(R.T_REQUEST_HEADER, [_enc_version(v), R.encode_integer(R.T_BATCH_COUNT, 1)])
    item = R.encode_struct(R.T_BATCH_ITEM, [
        R.encode_enum(T_OPERATION, op_code),
        R.encode_struct(R.T_REQUEST_PAYLOAD, list(payload_children))])
    return R.encode_struct(R.T_REQUEST_MESSAGE, [hdr, item])


def request_bytes(spec):
    """bytes (or raises) for the request of a case: spec has v, enc (optional) and either item
    (harness item spec) or raw_op (operation code) and optional hdr (extra header fields)."""
    v = tuple(spec["v"])
    if "raw_op" in spec:
        return raw_request(v, spec["raw_op"])
    req = dict(spec.get("hdr") or {})
    req["v"] = list(v)
    req["items"] = [spec["item"]]
    enc = tuple(spec.get("enc") or v)
    if enc not in SUP:
        enc = (1, 2)            # what harness.encode_request does for unknown version numbers
    data = encode_as(req, enc)
    if spec.get("graft"):
        data = graft_attribute(data, spec["graft"])
    if spec.get("graft_node"):
        data = graft_node(data, spec["graft_node"])
    if spec.get("only_late"):
        data = keep_only_late(data, v, int(spec["only_late"], 16))
    return data


def _late_of(data, v):
    tags = set()
    for n in R.parse(data):
        R.all_tags(n, tags)
    return set(t for t, w in S.late_tags(tags, v).items() if w.startswith("since"))


def keep_only_late(data, v, keep):
    """The request with every later-version field removed except the one tagged `keep` (a gate
    that looks for one later field must not be the only thing that stops the others)."""
    msg = R.parse_one(data)
    late = _late_of(data, v) - {keep}

    def holds(n):
        return n["tag"] == keep or any(holds(c) for c in n.get("children", []))

    def walk(n):
        if "children" in n:
            n["children"] = [c for c in n["children"] if c["tag"] not in late or holds(c)]
            for c in n["children"]:
                walk(c)
    walk(msg)
    return R.encode_node(msg)


def later_writer_variants(cases):
    """The library's writers leave out fields the version at hand does not define, so a case built
    with them never carries such a field: one more case per later writer (KMIP 1.2 / 1.4 rules)
    whose encoding of the same request differs - what a client sends that uses the field anyway."""
    out = []
    for c in cases:
        v = tuple(c["v"])
        if c.get("enc") or "raw_op" in c or v >= (1, 4):
            continue
        try:
            base = request_bytes(c)
        except Exception:
            base = None
        seen = {base}
        for enc in ((1, 2), (1, 4)):
            if enc <= v:
                continue
            d = dict(c, enc=list(enc), label="%s/written-as-%d.%d" % (c["label"], enc[0], enc[1]))
            try:
                data = request_bytes(d)
            except Exception:
                continue
            if data in seen:
                continue
            seen.add(data)
            out.append(d)
    return out


def only_late_variants(cases):
    """For every case whose request carries two or more later-version fields: one more case per
    such field, carrying that field alone."""
    out = []
    for c in cases:
        if c.get("only_late"):
            continue
        try:
            late = _late_of(request_bytes(c), tuple(c["v"]))
        except Exception:
            continue
        if len(late) < 2:
            continue
        for t in sorted(late):
            out.append(dict(c, only_late="%06x" % t, label="%s/only-%s" % (c["label"], S.tag_name(t))))
    return out


def graft_node(data, g):
    """Insert a primitive TTLV item into the first structure with tag g['into'] (hex), right after
    the child with tag g['after'] (hex) or at the end: for later-version fields the library's
    own writer refuses to emit under an earlier version (TTLV surgery; lengths recomputed)."""
    msg = R.parse_one(data)
    target = int(g["into"], 16)
    node = {"tag": int(g["tag"], 16), "type": g["type"], "value": g["value"]}
    done = []

    def walk(n):
        if n["tag"] == target and n["type"] == R.STRUCTURE and not done:
            kids = n["children"]
            pos = len(kids)
            if g.get("after"):
                for i, c in enumerate(kids):
                    if c["tag"] == int(g["after"], 16):
                        pos = i + 1
            kids.insert(pos, node)
            done.append(1)
            return
        for c in n.get("children", []):
            walk(c)
    walk(msg)
    if not done:
        raise ValueError("graft target %s not in request" % g["into"])
    return R.encode_node(msg)


def graft_attribute(data, g):
    """Append a 1.x Attribute {name, value} to the template-attribute structure with tag
    g['into'] (hex) of an encoded request (TTLV surgery; lengths are recomputed)."""
    msg = R.parse_one(data)
    target = int(g["into"], 16)
    typ, val = g["type"], g["value"]
    value_node = {"tag": 0x42000B, "type": typ}
    if typ == S.T_STRUCT:
        value_node["children"] = []
    else:
        value_node["value"] = val
    attr = {"tag": 0x420008, "type": R.STRUCTURE, "children": [
        {"tag": 0x42000A, "type": R.TEXT_STRING, "value": g["name"]}, value_node]}
    done = []

    def walk(n):
        if n["tag"] == target and n["type"] == R.STRUCTURE and not done:
            n["children"].append(attr)
            done.append(1)
            return
        for c in n.get("children", []):
            walk(c)
    walk(msg)
    if not done:
        raise ValueError("graft target %s not in request" % g["into"])
    return R.encode_node(msg)


# ------------------------------------------------------------------ exchange + independent reading
class Out(object):
    pass


def exchange(data, path="process", server=None, who="alice", req_obj=None):
    """Send bytes to a server (fresh copy of the standard store unless given) and observe."""
    own = server is None
    if own:
        server, _ = store.fresh_server()
    o = Out()
    try:
        spy = _hook(server)
        before = server.raw_dump()
        H.CLOCK.tick()
        del spy.seen[:]
        o.resp, o.stage, o.error, o.sent = None, None, None, None
        if path == "process":
            r = server.process(data, (who, None))
            o.resp, o.stage, o.error = r["resp"], r["stage"], r["error"]
        elif path == "session":
            conn, errs = server.session(data, cn=who)
            o.sent = list(conn.sent)
            o.stage = "session"
            o.error = errs[0] if errs else None
            o.resp = o.sent[0] if len(o.sent) == 1 else None
        elif path == "engine":
            from kmip.core import utils as cutils
            try:
                resp, _, pv = server.engine.process_request(req_obj, (who, None))
                s = cutils.BytearrayStream()
                resp.write(s, kmip_version=H.KV((1, 2)))
                o.resp, o.stage = bytes(s.buffer), "ok"
            except Exception as e:
                o.stage, o.error = "request", e
        o.handlers = sorted(set(spy.seen))
        o.changed = _dump_diff(before, server.raw_dump())
    finally:
        if own:
            server.close()
    o.items, o.version, o.parse_error = None, None, None
    if o.resp is not None:
        try:
            o.items = R.response_items(o.resp)
            o.version = R.response_version(o.resp)
        except Exception as e:      # not well-formed TTLV: judged by C01/C20, reported as class
            o.parse_error = e
    return o


def refused(o):
    """No batch item reports success (no response at all counts as refused)."""
    return not o.items or all(it["status"] != R.STATUS_SUCCESS for it in o.items)


GROUPED_PARENTS = {0x42002B, 0x420025}    # CryptographicParameters, CredentialValue: one reader each


def field_labels(node, bad):
    """{label: [tags]} - where each offending tag sits: '<Tag>-in-<Parent>' (payload parents are
    qualified by the operation of their batch item); all fields of a structure whose reader/writer
    is one ungated loop share one label."""
    out = {}

    def walk(n, parent, op):
        if n["tag"] == R.T_BATCH_ITEM:
            c = R.child(n, T_OPERATION)
            op = S.OP_BY_CODE.get(c["value"], ("Op0x%X" % c["value"],))[0] if c is not None else "NoOp"
        if n["tag"] in bad:
            if parent in GROUPED_PARENTS:
                label = "fields-of-" + S.tag_name(parent)
            elif parent in (R.T_REQUEST_PAYLOAD, R.T_RESPONSE_PAYLOAD):
                label = "%s-in-%s%s" % (S.tag_name(n["tag"]), op, S.tag_name(parent))
            else:
                label = "%s-in-%s" % (S.tag_name(n["tag"]), S.tag_name(parent) if parent else "top")
            out.setdefault(label, [])
            if n["tag"] not in out[label]:
                out[label].append(n["tag"])
        for c in n.get("children", []):
            walk(c, n["tag"], op)
    walk(node, None, None)
    return out


def tag_problems(data, v, what):
    """[(bucket, detail)] for later-version (or removed) tags in a message under version v."""
    try:
        node = R.parse_one(data)
    except Exception:
        return []
    bad = S.late_tags(R.all_tags(node), v)
    if not bad:
        return []
    out = []
    for label, tags in sorted(field_labels(node, bad).items()):
        why = sorted(set(bad[t] for t in tags))[0]
        out.append(("C16|field-gate|%s|%s|%s" % (what, label, why),
                    "message under KMIP %s contains %s" % (S.vs(v), ", ".join(
                        "0x%06X %s (%s)" % (t, S.tag_name(t), bad[t]) for t in sorted(tags)))))
    return out


def executed_evidence(o):
    ev = []
    if o.items and any(it["status"] == R.STATUS_SUCCESS for it in o.items):
        ev.append("success-item")
    if o.handlers:
        ev.append("handler-ran")
    if o.changed:
        ev.append("store-changed")
    return ev


def reasons(o):
    return [it["reason"] for it in (o.items or [])]


R_ONS = 0x05        # Result Reason: Operation Not Supported (spec 9.1.3.2.29)


# ------------------------------------------------------------------ valid request per operation
LIB_OPS = ["Create", "CreateKeyPair", "Register", "DeriveKey", "Locate", "Get", "GetAttributes",
           "GetAttributeList", "Activate", "Revoke", "Destroy", "Query", "DiscoverVersions",
           "Encrypt", "Decrypt", "Sign", "SignatureVerify", "MAC", "SetAttribute",
           "ModifyAttribute", "DeleteAttribute", "Rekey", "RekeyKeyPair", "Check",
           "GetUsageAllocation", "ObtainLease", "Archive", "Recover", "Cancel", "Poll"]
RAW_OPS = sorted(n for n in S.OPERATIONS if n not in LIB_OPS)
BLK = "00112233445566778899aabbccddeeff"


def valid_item(op, idx):
    """One valid request item per operation over the standard store (the 1.x and the 2.0 form
    of the attribute operations share one item spec: harness.build_payload picks by version)."""
    sk_act, sk_pre = idx["SymmetricKey/ACTIVE"], idx["SymmetricKey/PRE_ACTIVE"]
    sp = {"alg": "RSA", "hash": "SHA_256", "pad": "PKCS1v15"}
    m = {
        "Create": F.create_item(),
        "CreateKeyPair": F.keypair_item(),
        "Register": F.register_item("SymmetricKey", label="c16"),
        "DeriveKey": {"op": "DeriveKey", "uids": [sk_act], "method": "HASH",
                      "attrs": [["Cryptographic Length", 128], ["Cryptographic Algorithm", "AES"]],
                      "dp": {"params": {"hash": "SHA_256"}}},
        "Locate": {"op": "Locate", "attrs": [["Object Type", "SymmetricKey"]]},
        "Get": {"op": "Get", "uid": sk_act},
        "GetAttributes": {"op": "GetAttributes", "uid": sk_act},
        "GetAttributeList": {"op": "GetAttributeList", "uid": sk_act},
        "Activate": {"op": "Activate", "uid": sk_pre},
        "Revoke": {"op": "Revoke", "uid": idx["SecretData/ACTIVE"], "code": "CESSATION_OF_OPERATION"},
        "Destroy": {"op": "Destroy", "uid": idx["SecretData/PRE_ACTIVE"]},
        "Query": {"op": "Query"},
        "DiscoverVersions": {"op": "DiscoverVersions"},
        "Encrypt": {"op": "Encrypt", "uid": sk_act, "params": {"alg": "AES", "mode": "CBC", "pad": "PKCS5"},
                    "data": BLK, "iv": BLK},
        "Decrypt": {"op": "Decrypt", "uid": sk_act, "params": {"alg": "AES", "mode": "CTR"},
                    "data": BLK, "iv": BLK},
        "Sign": {"op": "Sign", "uid": idx["PrivateKey/ACTIVE"], "params": sp, "data": BLK},
        "SignatureVerify": {"op": "SignatureVerify", "uid": idx["PublicKey/ACTIVE"], "params": sp,
                            "data": BLK, "sig": "ab" * 128},
        "MAC": {"op": "MAC", "uid": sk_act, "params": {"alg": "HMAC_SHA256"}, "data": BLK},
        "SetAttribute": {"op": "SetAttribute", "uid": sk_pre, "new": ["Sensitive", True]},
        "ModifyAttribute": {"op": "ModifyAttribute", "uid": sk_pre, "attr": ["Name", "renamed", 0],
                            "cur": ["Name", "n-SymmetricKey-PRE_ACTIVE"], "new": ["Name", "renamed"]},
        "DeleteAttribute": {"op": "DeleteAttribute", "uid": sk_pre, "name": "Object Group",
                            "index": 0, "ref": {"name": "Object Group"}},
    }
    if op in m:
        return m[op]
    return {"op": op, "uid": sk_act}


def _idx():
    return store.standard_template()[1]


def _boundary(v, since, gone=None):
    """Gate-boundary rule: v is the introduction (removal) version or the supported one below."""
    v = tuple(v)
    for g in (since, gone):
        if g is None:
            continue
        g = tuple(g)
        if v == g or v == S.below(g):
            return True
    return False


# ====================================================================== part a
def cases_a():
    idx = _idx()
    out = []
    for v in SUP + S.UNSUPPORTED:
        for op in LIB_OPS:
            out.append({"part": "a", "v": list(v), "op": op, "item": valid_item(op, idx)})
    # the answers the session makes itself (Response Too Large for a Maximum Response Size the
    # answer does not fit in) speak the request's version too
    for v in SUP:
        for op in ("Query", "Locate", "Create", "DiscoverVersions"):
            if S.OPERATIONS[op][1] > v:
                continue
            for m in (0, 1, 64):
                out.append({"part": "a", "v": list(v), "op": op, "item": valid_item(op, idx), "hdr": {"max": m}})
    return out


def run_a(spec):
    v = tuple(spec["v"])
    op = spec["op"]
    since = S.OPERATIONS[op][1]
    buckets, classes = [], ["a:" + ("supported" if v in SUP else "unsupported")]
    native = True
    try:
        data = request_bytes(spec)
    except Exception:
        native = False
        data = None
        # body written by the rules of another version (the header keeps v): the operation's own
        # version, or - unknown version numbers - whichever supported rule set can write it
        for enc in ([max(since, v)] if v in SUP else [S.V20, since]):
            try:
                data = request_bytes(dict(spec, enc=list(enc)))
                break
            except Exception:
                continue
        if data is None:
            return [], False, classes + ["a:unencodable"]
        classes.append("a:transplanted-encoding")
    if v in SUP:
        decoded = True
        for path in ("process", "session"):
            o = exchange(data, path)
            if path == "process" and o.stage == "decode":
                # the server's decoder does not know the payload (operations it does not
                # register: C01 finding); which version the parse-error answer carries is open
                decoded = False
                classes.append("a:undecodable-by-server")
            if o.resp is None:
                # no (single) response: fine for a request that is not a well-formed message of
                # version v (operation of a later version); otherwise the answer is missing
                if native and decoded and v >= since and path == "session" and not o.sent:
                    buckets.append(("C16|echo|%s|no-answer" % path, "%s under %s" % (op, S.vs(v))))
                classes.append("a:%s:%s" % (path, "no-response" if path == "process" else "multi"))
                continue
            buckets += tag_problems(o.resp, v, "server-response")
            if o.version is None:
                classes.append("a:response-unparsable")
                continue
            judged = native and decoded and v >= since
            if judged and o.version != v:
                buckets.append(("C16|echo|%s|header-version-differs" % path,
                                "%s under KMIP %s answered with header version %s"
                                % (op, S.vs(v), S.vs(o.version))))
            classes.append("a:%s:%s" % (path, "echo" if o.version == v else
                                        ("other-version-judged" if judged else "other-version-open")))
        nt = True
    else:
        for path in ("process", "session", "engine"):
            req_obj = None
            if path == "engine":
                req_obj = H.build_request({"v": list(v), "items": [spec["item"]]})
            o = exchange(data, path, req_obj=req_obj)
            for ev in executed_evidence(o):
                buckets.append(("C16|refusal|%s|%s" % (path, ev),
                                "%s under unsupported KMIP %s: %s handlers=%s diff=%s items=%s"
                                % (op, S.vs(v), ev, o.handlers, o.changed,
                                   [(i["status"], i["reason"]) for i in (o.items or [])])))
            if path == "session":
                if not o.sent:
                    buckets.append(("C16|refusal|session|no-error-answer",
                                    "nothing sent for %s under %s (%r)" % (op, S.vs(v), o.error)))
                elif o.resp is not None and o.items is not None and not o.items:
                    buckets.append(("C16|refusal|session|no-error-answer", "response without item"))
            if path == "engine":
                from kmip.core import exceptions as kexc
                if o.error is not None and not isinstance(o.error, kexc.KmipError):
                    classes.append("a:engine-raises-" + type(o.error).__name__)
                elif o.error is not None:
                    classes.append("a:engine-refuses-" + type(o.error).__name__)
            classes.append("a:%s:refused" % path if refused(o) else "a:%s:ANSWERED" % path)
        nt = v in ((0, 9), (1, 5), (1, 9), (2, 1))
    return buckets, nt, classes


# ====================================================================== part b
def cases_b():
    idx = _idx()
    out = []
    for op in LIB_OPS + RAW_OPS:
        code, since = S.OPERATIONS[op]
        for v in SUP:
            encs = [v]
            if v < since and op in LIB_OPS:
                encs.append(since)
            for enc in encs:
                c = {"part": "b", "v": list(v), "op": op, "enc": list(enc)}
                if op in LIB_OPS:
                    c["item"] = valid_item(op, idx)
                else:
                    c["raw_op"] = code
                out.append(c)
    return out


def run_b(spec):
    v = tuple(spec["v"])
    op = spec["op"]
    since = S.OPERATIONS[op][1]
    nt = _boundary(v, since)
    rel = "below" if v < since else "at-or-above"
    classes = ["b:%s:%s" % (op, rel)]
    buckets = []
    if v < since and "item" in spec and spec.get("enc") == spec["v"]:
        # the engine's own gate, codec bypassed (the decoder may refuse the payload first, e.g.
        # SetAttribute below 2.0): a decoded request object handed to process_request
        try:
            req_obj = H.build_request({"v": list(v), "items": [spec["item"]]})
        except Exception:
            req_obj = None
        if req_obj is not None:
            o2 = exchange(None, "engine", req_obj=req_obj)
            ev = executed_evidence(o2)
            if ev:
                buckets.append(("C16|op-gate|%s|executed-below-version" % op,
                                "%s (KMIP %s) handed to the engine under KMIP %s: %s handlers=%s diff=%s"
                                % (op, S.vs(since), S.vs(v), ev, o2.handlers, o2.changed)))
            classes.append("b:below:engine-" + ("EXECUTED" if ev else "refusal"))
    try:
        data = request_bytes(spec)
    except Exception as e:
        return buckets, nt, classes + ["b:unencodable-" + type(e).__name__]
    o = exchange(data, "process")
    if o.resp is not None:
        buckets += tag_problems(o.resp, v, "server-response")
    if v < since:
        ev = executed_evidence(o)
        if ev:
            buckets.append(("C16|op-gate|%s|executed-below-version" % op,
                            "%s (KMIP %s) under KMIP %s: %s handlers=%s diff=%s"
                            % (op, S.vs(since), S.vs(v), ev, o.handlers, o.changed)))
        elif o.items:
            rs = [r for r in reasons(o) if r != R_ONS]
            if rs:
                buckets.append(("C16|op-gate|%s|refused-with-other-reason" % op,
                                "reasons %s messages %s" % (reasons(o), [i["message"] for i in o.items])))
        classes.append("b:below:" + ("decode-refusal" if o.stage == "decode" else
                                     "request-refusal" if o.stage == "request" else
                                     "item-refusal" if refused(o) else "EXECUTED"))
    else:
        if o.stage != "ok":
            classes.append("b:avail:" + o.stage + "-refusal")
        elif refused(o):
            classes.append("b:avail:" + ("not-supported" if R_ONS in reasons(o) else "failed"))
        else:
            classes.append("b:avail:success")
        if o.version is not None and spec.get("enc") == spec["v"] and o.version != v:
            buckets.append(("C16|echo|process|header-version-differs",
                            "%s under %s -> %s" % (op, S.vs(v), S.vs(o.version))))
    return buckets, nt, classes


# ====================================================================== part c1
CARRIERS = ["Create", "Register", "CreateKeyPair/common", "CreateKeyPair/private",
            "CreateKeyPair/public", "DeriveKey", "ModifyAttribute", "Locate"]
_TA_TAG = {"Create": "420091", "Register": "420091", "DeriveKey": "420091",
           "CreateKeyPair/common": "42001f", "CreateKeyPair/private": "420065",
           "CreateKeyPair/public": "42006e"}
_HARNESS_ATTRS = ("Sensitive", "Always Sensitive", "Extractable", "Never Extractable", "Fresh",
                  "Certificate Length", "Original Creation Date")
CONTROL_ATTRS = ["Name", "Object Group"]          # KMIP 1.0 attributes: accepted at every version


def _carrier_item(carrier, idx, attr=None):
    """(item, where the attribute list lives) - attr is a harness attribute spec or None."""
    extra = [attr] if attr is not None else []
    if carrier == "Create":
        return F.create_item(extra_attrs=extra)
    if carrier == "Register":
        return F.register_item("SymmetricKey", label="c16", extra_attrs=extra)
    if carrier.startswith("CreateKeyPair"):
        it = F.keypair_item()
        key = carrier.split("/")[1]
        it[key] = it[key] + extra
        return it
    if carrier == "DeriveKey":
        it = copy.deepcopy(valid_item("DeriveKey", idx))
        it["attrs"] = it["attrs"] + extra
        return it
    if carrier == "ModifyAttribute":
        return {"op": "ModifyAttribute", "uid": idx["SymmetricKey/PRE_ACTIVE"],
                "attr": attr, "new": attr}
    if carrier == "Locate":
        return {"op": "Locate", "attrs": extra}
    raise ValueError(carrier)


def cases_c1():
    idx = _idx()
    out = []
    for name in sorted(S.ATTR_SINCE) + CONTROL_ATTRS:
        for v in SUP:
            for carrier in CARRIERS:
                c = {"part": "c1", "v": list(v), "attr": name, "carrier": carrier}
                if name in CONTROL_ATTRS:
                    sample = ["Name", "c16-control"] if name == "Name" else ["Object Group", "c16g"]
                    if carrier == "ModifyAttribute":
                        sample = sample + [0]
                    c["item"] = _carrier_item(carrier, idx, sample)
                elif name in _HARNESS_ATTRS:
                    typ, val = S.ATTR_SAMPLE[name]
                    c["item"] = _carrier_item(carrier, idx, [name, val])
                elif v < (2, 0) and carrier in _TA_TAG:
                    typ, val = S.ATTR_SAMPLE[name]
                    c["item"] = _carrier_item(carrier, idx)
                    c["graft"] = {"into": _TA_TAG[carrier], "name": name, "type": typ, "value": val}
                else:
                    continue        # no way to express the attribute in this carrier/version
                out.append(c)
    return out


def _object_count(server):
    d = server.raw_dump()
    return len(d.get("managed_objects", {}).get("rows", []))


def _carries(data, name):
    """Does the encoded request name the attribute (Attribute Name text, or - KMIP 2.0 - its tag
    inside an Attributes / New Attribute / Current Attribute structure)?  ttlvref only."""
    try:
        node = R.parse_one(data)
    except Exception:
        return False
    tags = [t for t, n in S.ATTR_TAG_NAME.items() if n == name]
    found = []

    def walk(n, parent):
        if n["tag"] == 0x42000A and n.get("value") == name:
            found.append(1)
        if n["tag"] in tags and parent in T_ATTRIBUTES_FAMILY + (0x42013C, 0x42013D):
            found.append(1)
        for c in n.get("children", []):
            walk(c, n["tag"])
    walk(node, None)
    return bool(found)


def run_c1(spec):
    v = tuple(spec["v"])
    name, carrier = spec["attr"], spec["carrier"]
    since = S.ATTR_SINCE.get(name, S.V10)
    nt = _boundary(v, since) and name in S.ATTR_SINCE
    classes = ["c1:%s:%s" % (carrier.split("/")[0], "below" if v < since else "at-or-above")]
    try:
        data = request_bytes(spec)
    except Exception as e:
        return [], nt, classes + ["c1:unencodable-" + type(e).__name__]
    if not _carries(data, name):
        return [], False, classes + ["c1:attribute-not-in-request"]
    srv, _ = store.fresh_server()
    try:
        n0 = _object_count(srv)
        o = exchange(data, "process", server=srv)
        n1 = _object_count(srv)
    finally:
        srv.close()
    buckets = []
    if o.resp is not None:
        buckets += tag_problems(o.resp, v, "server-response")
    ok = not refused(o)
    if v < since:
        if ok or n1 != n0 or (o.changed and carrier == "ModifyAttribute"):
            what = "accepted" if ok else "stored-although-refused"
            buckets.append(("C16|attribute-gate|%s|%s-below-version" % (carrier.split("/")[0], what),
                            "%s (KMIP %s) carried by %s under KMIP %s: success=%s objects %d->%d diff=%s"
                            % (name, S.vs(since), carrier, S.vs(v), ok, n0, n1, o.changed)))
        classes.append("c1:below:" + ("ACCEPTED" if ok else "refused"))
    else:
        classes.append("c1:%s:%s" % ("control" if name in CONTROL_ATTRS else "later-attr",
                                     "accepted" if ok else "refused"))
    return buckets, nt, classes


# ====================================================================== part c2
ALL_NAMES = sorted(set(S.ATTR_10) | set(S.ATTR_SINCE) | {"x-custom"})
C2_OBJECTS = [
    # (label, version used to store, attrs added on Register)
    ["plain-1.0", [1, 0], []],
    ["sensitive-1.4", [1, 4], [["Sensitive", True]]],
    ["sensitive-2.0", [2, 0], [["Sensitive", True]]],
    ["policy-1.0", [1, 0], [["Operation Policy Name", "default"]]],
    ["policy+sensitive-1.4", [1, 4], [["Operation Policy Name", "default"], ["Sensitive", True]]],
]
C2_READS = ["GetAttributes/all", "GetAttributes/every-name", "GetAttributes/gated-names",
            "GetAttributeList", "DeleteAttribute/Sensitive", "DeleteAttribute/OperationPolicyName"]


def cases_c2():
    out = []
    for obj in C2_OBJECTS:
        for v in SUP:
            for read in C2_READS:
                if read.startswith("DeleteAttribute") and v >= (2, 0):
                    continue        # the 1.x response echoes the attribute; 2.0 does not
                out.append({"part": "c2", "v": list(v), "obj": obj, "read": read})
    return out


def named_attributes(resp, v):
    """Attribute names a response names, read with ttlvref only: Attribute Name texts, plus (2.0)
    the members of Attributes structures; unknown tags are reported as 'tag:0x..'."""
    names = []
    node = R.parse_one(resp)

    def walk(n, parent):
        if n["tag"] == 0x42000A and n["type"] == R.TEXT_STRING:
            names.append(n["value"])
        if parent in T_ATTRIBUTES_FAMILY:
            names.append(S.ATTR_TAG_NAME.get(n["tag"], "tag:0x%06X" % n["tag"]))
        for c in n.get("children", []):
            walk(c, n["tag"])
    for it in R.children(node, R.T_BATCH_ITEM):
        p = R.child(it, R.T_RESPONSE_PAYLOAD)
        if p is not None:
            walk(p, None)
    return names


def run_c2(spec):
    v = tuple(spec["v"])
    label, sv, attrs = spec["obj"]
    read = spec["read"]
    gated = sorted(set(S.ATTR_SINCE) | set(S.ATTR_GONE))
    carried = [a[0] for a in attrs] + ["Sensitive", "Operation Policy Name"]   # defaults exist too
    nt = any(_boundary(v, S.ATTR_SINCE.get(n), S.ATTR_GONE.get(n)) for n in set(carried))
    classes = ["c2:" + read.split("/")[0], "c2:obj:" + label]
    srv, idx = store.fresh_server()
    buckets = []
    try:
        w = H.Client(srv, "alice", v=tuple(sv))
        r = w.one(F.register_item("SymmetricKey", label="c16", extra_attrs=attrs))
        if r["status"] != "SUCCESS":
            # cannot happen on the unchanged tree (then the run is vacuous for c2 and the class
            # shows it); a mutated gate may refuse the set-up - parts b/c1/f judge that
            return [], False, classes + ["c2:SETUP-REGISTER-REFUSED"]
        uid = r["payload"]["uid"]
        if read == "GetAttributes/all":
            item = {"op": "GetAttributes", "uid": uid}
        elif read == "GetAttributes/every-name":
            item = {"op": "GetAttributes", "uid": uid, "names": ALL_NAMES}
        elif read == "GetAttributes/gated-names":
            item = {"op": "GetAttributes", "uid": uid, "names": gated}
        elif read == "GetAttributeList":
            item = {"op": "GetAttributeList", "uid": uid}
        else:
            nm = "Sensitive" if read.endswith("Sensitive") else "Operation Policy Name"
            item = {"op": "DeleteAttribute", "uid": uid, "name": nm}
        try:
            data = request_bytes({"v": list(v), "item": item})
        except Exception as e:
            return [], nt, classes + ["c2:unencodable-" + type(e).__name__]
        o = exchange(data, "process", server=srv)
    finally:
        srv.close()
    if o.resp is None:
        return [], nt, classes + ["c2:no-response-" + str(o.stage)]
    buckets += tag_problems(o.resp, v, "server-response")
    try:
        names = named_attributes(o.resp, v)
    except Exception:
        return buckets, nt, classes + ["c2:response-unparsable"]
    classes.append("c2:" + ("refused" if refused(o) else "answered"))
    for n in sorted(set(names)):
        why = S.attr_outside(n, v)
        if why:
            buckets.append(("C16|attribute-report|%s|%s|%s" % (read.split("/")[0], n, why),
                            "%s under KMIP %s names %r (%s); object %s" % (read, S.vs(v), n, why, label)))
    for n in ("Sensitive", "Operation Policy Name"):
        if n in names:
            classes.append("c2:names-%s@%s" % (n.replace(" ", ""), S.vs(v)))
    return buckets, nt, classes


# ====================================================================== part d1 (raw objects)
def _strip(node, v, keep=None):
    """Copy of a codec_table spec without fields outside their version interval at v
    (recursively); `keep` names ONE top-level field that stays although it is outside."""
    from vlib import codec_table as CT
    if isinstance(node, list):
        return [_strip(x, v) for x in node]
    if not isinstance(node, dict):
        return node
    if "cls" not in node or node["cls"] not in CT.ROWS:
        return {k: _strip(x, v) for k, x in node.items()}
    row = CT.ROWS[node["cls"]]
    out = {k: x for k, x in node.items() if k != "fields"}
    fields = {}
    for k, x in node.get("fields", {}).items():
        try:
            f = row.field(k)
        except KeyError:
            fields[k] = _strip(x, v)
            continue
        if not f.exists(v) and k != keep:
            continue
        fields[k] = _strip(x, v)
    out["fields"] = fields
    return out


def _outside_fields(spec, v):
    from vlib import codec_table as CT
    row = CT.ROWS[spec["cls"]]
    out = []
    for k in spec.get("fields", {}):
        try:
            if not row.field(k).exists(v):
                out.append(k)
        except KeyError:
            pass
    return out


def _tags_of(data):
    tags = set()
    for n in R.parse(data):
        R.all_tags(n, tags)
    return tags


def run_d1(spec):
    """spec: {part, cls, v, field, value}: value = over-specified codec_table spec whose only
    out-of-interval content is the top-level field `field` (None: the row itself is outside v)."""
    from vlib import codec_table as CT
    v = tuple(spec["v"])
    name, field = spec["cls"], spec.get("field")
    row = CT.ROWS[name]
    over = dict(spec["value"], v=list(v))
    classes = ["d1:" + row.group]
    if field is None:
        nt = _boundary(v, row.since, None)
        try:
            b = CT.encode(CT.build(over), v)
        except Exception:
            return [], nt, classes + ["d1:row-outside:writer-refuses"]
        try:
            late = S.late_tags(_tags_of(b), v)
        except Exception:
            return [], nt, classes + ["d1:unparsable"]
        if not late:
            return [], nt, classes + ["d1:row-outside:no-late-tag"]
        try:
            CT.decode(name, b, v, hint=over)
            return [], nt, classes + ["d1:row-outside:ungated-both-ways"]
        except Exception as e:
            k = "C16|field-gate|raw-object|%s|whole-class|writer-emits-reader-rejects" % name
            return [(k, "%s written under KMIP %s carries %s; its reader under the same version raises %s: %s"
                     % (name, S.vs(v), [S.tag_name(t) for t in sorted(late)], type(e).__name__, e))], \
                nt, classes + ["d1:row-outside:READER-REJECTS"]
    f = row.field(field)
    nt = _boundary(v, f.since, None) or (tuple(f.until) != S.V20 and v == tuple(f.until))
    base = _strip(over, v)
    try:
        bb = CT.encode(CT.build(base), v)
        CT.decode(name, bb, v, hint=base)
    except Exception:
        return [], nt, classes + ["d1:control-fails"]        # another defect (C01): not judged here
    try:
        bo = CT.encode(CT.build(over), v)
    except Exception:
        return [], nt, classes + ["d1:writer-refuses"]
    if bo == bb:
        return [], nt, classes + ["d1:writer-drops"]
    try:
        new = _tags_of(bo) - _tags_of(bb)
    except Exception:
        return [], nt, classes + ["d1:unparsable"]
    late = S.late_tags(new, v)
    if not late:
        return [], nt, classes + ["d1:emitted-not-a-later-tag"]
    tn = "+".join(S.tag_name(t) for t in sorted(late))
    try:
        y = CT.decode(name, bo, v, hint=over)
    except Exception as e:
        k = "C16|field-gate|raw-object|%s|%s|writer-emits-reader-rejects" % (name, field)
        return [(k, "%s.%s set under KMIP %s: write() emits %s (%s), read() of the same class and "
                 "version raises %s: %s" % (name, field, S.vs(v), tn, sorted(late.values()),
                                            type(e).__name__, e))], nt, classes + ["d1:READER-REJECTS"]
    try:
        by = CT.encode(y, v)
    except Exception:
        by = None
    if by == bb:
        k = "C16|field-gate|raw-object|%s|%s|writer-emits-reader-drops" % (name, field)
        return [(k, "%s.%s set under KMIP %s: write() emits %s, read() of the same class and version "
                 "silently drops it" % (name, field, S.vs(v), tn))], nt, classes + ["d1:READER-DROPS"]
    return [], nt, classes + ["d1:ungated-both-ways"]


def d1_units():
    from vlib import codec_table as CT
    units = []
    for row in sorted(CT.concrete_rows(), key=lambda r: r.name):
        if row.group == "primitive":
            continue            # a bare primitive carries whatever tag the caller gives it
        for v in SUP:
            if not row.exists(v):
                units.append((row.name, list(v), None))
                continue
            for f in row.fields:
                if not f.exists(v):
                    units.append((row.name, list(v), f.name))
    return units


def d1n_pass(col, names, n, seed):
    """Informational: values the table holds to be inside their interval; later-version tags
    directly below the root that writer and reader of the class both let through (ungated both
    ways - not judged, see ASSUMPTIONS) are counted per tag."""
    from vlib import codec_table as CT
    for name in names:
        row = CT.ROWS[name]
        if row.group == "primitive":
            continue
        for v in SUP:
            if not row.exists(v):
                continue

            def one(value, name=name, v=v):
                try:
                    b = CT.encode(CT.build(value), v)
                    node = R.parse_one(b)
                except Exception:
                    return
                late = S.late_tags([c["tag"] for c in node.get("children", [])], v)
                late = {t: w for t, w in late.items() if w.startswith("since")}
                if not late:
                    return
                try:
                    CT.decode(name, b, v, hint=value)
                    verdict = "ungated-both-ways"
                except Exception:
                    verdict = "reader-rejects(C01-domain)"
                for t in late:
                    col.bump("d1n:%s:%s.%s" % (verdict, name, S.tag_name(t)))
            core.draw_examples(CT.strategy_for(name, v, over_specified=False, probe_rate=0),
                               n, core.derive_seed(seed, "d1n", name, v), one)


def d1_worker(units, n, seed, names=()):
    from vlib import codec_table as CT
    col = core.Collector(PID)
    d1n_pass(col, names, max(2, n // 3), seed)
    for name, v, field in units:
        def one(value, name=name, v=v, field=field):
            if field is not None:
                if field not in value.get("fields", {}):
                    col.bump("d1_draws_without_the_field")
                    return
                value = _strip(value, tuple(v), keep=field)
            else:
                value = _strip(value, tuple(v))     # nested content stays inside its intervals
            spec = {"part": "d1", "cls": name, "v": v, "field": field,
                    "value": {"cls": value["cls"], "fields": value["fields"]}}
            b, nt, cl = run_d1(spec)
            if nt:
                col.bump("boundary_cells:d1")
            col.record(spec, nontrivial=nt, classes=["part:d1"] + cl, buckets=b)
        try:
            core.draw_examples(CT.strategy_for(name, tuple(v), over_specified=True, probe_rate=0),
                               n, core.derive_seed(seed, name, tuple(v), field), one)
        except Exception as e:
            raise core.HarnessError("d1 generator failed for %s %s %s: %r" % (name, v, field, e))
    return col


# ====================================================================== part d3 (client library)
def run_d3(spec):
    from vlib import c16_client
    return c16_client.run(spec, tag_problems)


# ====================================================================== part d4
def _valid_gcm_items(wk):
    """Decrypt requests the server answers with the plaintext where the authenticated-encryption
    fields are defined (so that nothing but a version gate refuses them elsewhere): ciphertext and
    tag computed here, independently, under the stored key of the standard store."""
    from cryptography.hazmat.primitives.ciphers.aead import AESGCM
    key = bytes.fromhex(F.det_bytes("SymmetricKey-ACTIVE", 16))
    iv = bytes.fromhex("ab" * 12)
    pt = bytes.fromhex(BLK)
    out = []
    for lab, aad in (("tag", None), ("aad+tag", b"\x01\x02")):
        ct = AESGCM(key).encrypt(iv, pt, aad)
        it = {"op": "Decrypt", "uid": wk, "params": {"alg": "AES", "mode": "GCM", "tag_length": 16},
              "data": ct[:-16].hex(), "iv": iv.hex(), "tag": ct[-16:].hex()}
        if aad is not None:
            it["aad"] = aad.hex()
        out.append(("Decrypt/valid-gcm-" + lab, it, None))
    return out


def cases_d4():
    idx = _idx()
    wk = idx["SymmetricKey/ACTIVE"]
    sk = idx["SymmetricKey/PRE_ACTIVE"]
    nkw = {"mode": "NIST_KEY_WRAP"}
    o = F.obj_spec("SymmetricKey", "c16w")
    cbc = {"alg": "AES", "mode": "CBC", "pad": "PKCS5"}
    menu = [
        # (label, item, header extras)
        ("Get/wrap-encoding-option", {"op": "Get", "uid": sk, "wrap": {"eki": {"uid": wk, "params": nkw}, "enc": "NO_ENCODING"}}, None),
        ("Get/wrap-params-iv-length", {"op": "Get", "uid": sk, "wrap": {"eki": {"uid": wk, "params": dict(nkw, random_iv=False, iv_length=16)}}}, None),
        ("Locate/object-group-member", {"op": "Locate", "ogm": "GROUP_MEMBER_FRESH"}, None),
        ("Locate/offset-items", {"op": "Locate", "offset": 1}, None),
        ("Locate/offset+max", {"op": "Locate", "offset": 1, "max": 2}, None),
        ("Register/wrapped-encoding-option", {"op": "Register", "obj": dict(o, wrap={"method": "ENCRYPT", "eki": {"uid": "1", "params": nkw}, "enc": "NO_ENCODING"}), "attrs": [["Cryptographic Usage Mask", 12]]}, None),
        ("Register/wrapped-params-12", {"op": "Register", "obj": dict(o, wrap={"method": "ENCRYPT", "eki": {"uid": "1", "params": {"mode": "CBC", "random_iv": False, "iv_length": 16}}, "iv": "00" * 16}), "attrs": [["Cryptographic Usage Mask", 12]]}, None),
        ("DeriveKey/params-dsa", dict(valid_item("DeriveKey", idx), dp={"params": {"hash": "SHA_256", "dsa": "SHA256_WITH_RSA_ENCRYPTION"}, "data": "0102"}), None),
        ("DeriveKey/params-12", dict(valid_item("DeriveKey", idx), dp={"params": {"hash": "SHA_256", "random_iv": False, "tag_length": 0, "counter_length": 0}, "data": "0102"}), None),
        ("Encrypt/aad", {"op": "Encrypt", "uid": wk, "params": {"alg": "AES", "mode": "GCM", "tag_length": 16}, "data": BLK, "iv": "ab" * 12, "aad": "0102"}, None),
        ("Encrypt/random-iv-param", {"op": "Encrypt", "uid": wk, "params": dict(cbc, random_iv=True, iv_length=16), "data": BLK}, None),
        ("Decrypt/aad+tag", {"op": "Decrypt", "uid": wk, "params": {"alg": "AES", "mode": "GCM", "tag_length": 16}, "data": BLK, "iv": "ab" * 12, "aad": "0102", "tag": "ee" * 16}, None),
    ] + _valid_gcm_items(wk) + [
        ("Query/device-credential", {"op": "Query"}, {"cred": [{"kind": "device", "serial": "s", "password": "p", "device": "d", "network": "n", "machine": "m", "media": "md"}]}),
        ("Query/later-functions", {"op": "Query", "functions": ["QUERY_OPERATIONS", "QUERY_EXTENSION_LIST", "QUERY_EXTENSION_MAP", "QUERY_ATTESTATION_TYPES", "QUERY_RNGS", "QUERY_VALIDATIONS", "QUERY_PROFILES", "QUERY_CAPABILITIES", "QUERY_CLIENT_REGISTRATION_METHODS"]}, None),
        ("Create/sensitive", F.create_item(extra_attrs=[["Sensitive", True]]), None),
    ]
    out = []
    for label, item, hdr in menu:
        for v in SUP:
            c = {"part": "d4", "v": list(v), "label": label, "item": item}
            if hdr:
                c["hdr"] = hdr
            out.append(c)
    # later-version fields the library's writer gates itself: grafted into the encoded request
    # (KMIP 2.0 Ephemeral flag of a batch item, tag 0x420154, Boolean)
    for label, item in (("Query/ephemeral-grafted", {"op": "Query"}),
                        ("Create/ephemeral-grafted", F.create_item()),
                        ("Get/ephemeral-grafted", {"op": "Get", "uid": sk})):
        for v in SUP:
            for val in (True, False):
                out.append({"part": "d4", "v": list(v), "label": label, "item": item,
                            "graft_node": {"into": "42000f", "after": "42005c", "tag": "420154", "type": 6, "value": val}})
    out = out + later_writer_variants(out)
    return out + only_late_variants(out)


D2_OBJECTS = ["SymmetricKey/ACTIVE", "PrivateKey/ACTIVE", "Certificate/ACTIVE", "SecretData/PRE_ACTIVE"]


def cases_d2(stride, offset):
    """The shared request menus (vlib.menus: valid, odd and over-specified requests of every
    operation) x version; judged like d4 (later fields accepted / later tags in the answer).
    stride/offset: deterministic subsample for the quick tier (1/0 = everything)."""
    from vlib import menus as M
    idx = _idx()
    out = []
    k = 0
    for v in SUP:
        menu = list(M.store_menu(idx, v))
        for key in D2_OBJECTS:
            menu += [("%s@%s" % (l, key), it) for l, it in M.object_menu(idx[key], idx)]
        menu += [("%s@%s" % (l, D2_OBJECTS[0]), it) for l, it in M.attr_menu(idx["SymmetricKey/PRE_ACTIVE"], v)]
        for label, item in menu:
            k += 1
            if k % stride != offset % stride:
                continue
            out.append({"part": "d4", "v": list(v), "label": "menu:" + label, "item": item})
        for label, req in M.header_menu():
            k += 1
            if k % stride != offset % stride or len(req["items"]) != 1 or isinstance(req.get("ts"), str):
                continue
            hdr = {x: y for x, y in req.items() if x != "items"}
            out.append({"part": "d4", "v": list(v), "label": "menu:" + label, "item": req["items"][0], "hdr": hdr})
    out = out + later_writer_variants(out)
    return out + only_late_variants(out)


def run_d4(spec):
    v = tuple(spec["v"])
    label = spec["label"]
    op = spec["item"]["op"]
    classes = [("d2:" if label.startswith("menu:") else "d4:") + op]
    try:
        data = request_bytes(spec)
    except Exception as e:
        return [], False, classes + ["d4:writer-refuses"]
    try:
        tags = _tags_of(data)
    except Exception:
        return [], False, classes + ["d4:request-unparsable"]
    late = {t: w for t, w in S.late_tags(tags, v).items() if w.startswith("since")}
    nt = any(_boundary(v, S.tag_since(t)) for t in late)
    o = exchange(data, "process")
    buckets = []
    if o.resp is not None:
        buckets += tag_problems(o.resp, v, "server-response")
    if not late:
        return buckets, False, classes + ["d4:no-later-field"]
    if S.OPERATIONS[op][1] > v:
        classes.append("d4:operation-itself-later")
    if not refused(o):
        for lab, ts in sorted(field_labels(R.parse_one(data), late).items()):
            buckets.append(("C16|field-gate|request-accepted|%s" % lab,
                            "%s under KMIP %s carries %s and is answered with success"
                            % (label, S.vs(v), ", ".join("%s (KMIP %s)" % (S.tag_name(t), S.vs(S.tag_since(t)))
                                                          for t in sorted(ts)))))
        classes.append("d4:ACCEPTED")
    else:
        classes.append("d4:refused-at-" + ("item" if o.stage == "ok" else str(o.stage)))
    return buckets, nt, classes


# ====================================================================== part e
_POOL = SUP + S.UNSUPPORTED + [(9, 9), (1, 10), (2, 2), (0, 1)]
_accept_cache = {}


def accepted_by_query(v):
    """Does a Query under version v get a success answer (real session loop, fresh store)?"""
    v = tuple(v)
    if v not in _accept_cache:
        data = request_bytes({"v": list(v), "item": {"op": "Query"}})
        o = exchange(data, "session")
        ok = not refused(o)
        o2 = exchange(data, "engine", req_obj=H.build_request({"v": list(v), "items": [{"op": "Query"}]}))
        _accept_cache[v] = (ok, not refused(o2))
    return _accept_cache[v]


@st.composite
def gen_e(draw):
    rv = draw(st.sampled_from(SUP[1:]))
    mode = draw(st.sampled_from(["empty", "sorted", "sorted", "sorted", "sorted", "sorted", "sorted", "any-order"]))
    if mode == "empty":
        lst = []
    else:
        pool = st.one_of(st.sampled_from(_POOL), st.sampled_from(SUP),
                         st.tuples(st.integers(0, 3), st.integers(0, 9)))
        lst = [list(x) for x in draw(st.lists(pool, min_size=1, max_size=8))]
        if mode == "sorted":
            # the confirmed defect (client order echoed) is excluded from the bulk by construction:
            # supported entries appear newest first; unsupported ones stay where they were drawn
            sup = sorted([x for x in lst if tuple(x) in SUP], reverse=True)
            it = iter(sup)
            new = [next(it) if tuple(x) in SUP else x for x in lst]
            reordered = new != lst
            lst = new
            return {"part": "e", "v": list(rv), "versions": lst, "mode": mode, "reordered": reordered}
    return {"part": "e", "v": list(rv), "versions": lst, "mode": mode}


def run_e(spec):
    rv = tuple(spec["v"])
    lst = [tuple(x) for x in spec["versions"]]
    classes = ["e:" + spec.get("mode", "replay"), "e:len-%d" % min(len(lst), 5)]
    sup_in = [x for x in lst if x in SUP]
    nt = bool(sup_in) and len(sup_in) != len(lst)
    if len(set(lst)) != len(lst):
        classes.append("e:duplicates")
    try:
        data = request_bytes({"v": list(rv), "item": {"op": "DiscoverVersions", "versions": spec["versions"]}})
    except Exception as e:
        return [], nt, classes + ["e:unencodable"]
    o = exchange(data, "session")
    buckets = []
    if o.resp is None or o.items is None:
        return [("C16|discover-versions|no-answer", "sent=%r err=%r" % (o.sent, o.error))], nt, classes
    buckets += tag_problems(o.resp, rv, "server-response")
    if refused(o):
        return buckets + [("C16|discover-versions|refused", "reasons %s under %s" % (reasons(o), S.vs(rv)))], nt, classes
    payload = o.items[0]["payload"]
    got = []
    for pv in R.children(payload, R.T_PROTOCOL_VERSION) if payload else []:
        got.append((R.child(pv, R.T_PROTOCOL_VERSION_MAJOR)["value"],
                    R.child(pv, R.T_PROTOCOL_VERSION_MINOR)["value"]))
    detail = "client list %s under KMIP %s -> %s" % ([S.vs(x) for x in lst], S.vs(rv), [S.vs(x) for x in got])
    for x in got:
        acc = accepted_by_query(x)
        if not (acc[0] and acc[1]):
            buckets.append(("C16|discover-versions|lists-refused-version", detail + "; Query under %s refused" % S.vs(x)))
        if lst and x not in lst:
            buckets.append(("C16|discover-versions|not-in-client-list", detail))
    # every generated version that is not listed is refused (empty client list: the whole pool)
    for x in sorted((set(lst) if lst else set(_POOL)) - set(got)):
        acc = accepted_by_query(x)
        if acc[0] or acc[1]:
            buckets.append(("C16|discover-versions|omits-accepted-version",
                            detail + "; Query under %s is accepted (session=%s engine=%s)" % (S.vs(x), acc[0], acc[1])))
    if any(got[i] < got[i + 1] for i in range(len(got) - 1)):
        if not lst:
            how = "own-list"
        elif got == [x for x in lst if x in got]:
            how = "client-order-echoed"
        else:
            how = "other-order"
        buckets.append(("C16|discover-versions|not-descending|" + how, detail))
    if not lst and set(got) != set(SUP):
        classes.append("e:empty-list-answer-differs-from-supported-set")
    classes.append("e:listed-%d" % len(got))
    return buckets, nt, classes


def run_e_probe(spec):
    """Acceptance probe of one version (supported <=> accepted), exhaustive over the pool."""
    v = tuple(spec["v"])
    acc = accepted_by_query(v)
    buckets = []
    if v in SUP and not (acc[0] and acc[1]):
        buckets.append(("C16|version-acceptance|supported-version-refused", "Query under %s: session=%s engine=%s" % (S.vs(v), acc[0], acc[1])))
    if v not in SUP and (acc[0] or acc[1]):
        buckets.append(("C16|version-acceptance|unsupported-version-accepted", "Query under %s: session=%s engine=%s" % (S.vs(v), acc[0], acc[1])))
    return buckets, v in SUP or v in ((0, 9), (1, 5), (1, 9), (2, 1)), ["e:probe-" + ("supported" if v in SUP else "unsupported")]


# ====================================================================== part f
F_FUNCTIONS = [["QUERY_OPERATIONS"],
               ["QUERY_OPERATIONS", "QUERY_OBJECTS", "QUERY_SERVER_INFORMATION",
                "QUERY_APPLICATION_NAMESPACES"],
               ["QUERY_OBJECTS", "QUERY_OPERATIONS", "QUERY_EXTENSION_LIST", "QUERY_EXTENSION_MAP"]]


def cases_f():
    return [{"part": "f", "v": list(v), "functions": fn} for v in SUP for fn in F_FUNCTIONS]


def run_f(spec):
    v = tuple(spec["v"])
    idx = _idx()
    classes = ["f:query@" + S.vs(v)]
    data = request_bytes({"v": list(v), "item": {"op": "Query", "functions": spec["functions"]}})
    o = exchange(data, "session")
    if o.resp is None or not o.items:
        return [("C16|query|no-answer", "Query %s under %s" % (spec["functions"], S.vs(v)))], True, classes
    buckets = tag_problems(o.resp, v, "server-response")
    if refused(o):
        return buckets + [("C16|query|refused", "reasons %s" % reasons(o))], True, classes
    codes = [n["value"] for n in R.children(o.items[0]["payload"], T_OPERATION)] if o.items[0]["payload"] else []
    classes.append("f:advertised-%d" % len(codes))
    for code in codes:
        if code not in S.OP_BY_CODE:
            buckets.append(("C16|query|advertises-unknown-operation", "code 0x%X under %s" % (code, S.vs(v))))
            continue
        name, since = S.OP_BY_CODE[code]
        if since > v:
            buckets.append(("C16|query|advertises-operation-below-version|" + name,
                            "%s (KMIP %s) advertised under KMIP %s" % (name, S.vs(since), S.vs(v))))
        if name not in LIB_OPS:
            buckets.append(("C16|query|advertised-operation-unavailable|" + name, "no request form"))
            continue
        try:
            req = request_bytes({"v": list(v), "item": valid_item(name, idx)})
        except Exception as e:
            buckets.append(("C16|query|advertised-operation-unavailable|" + name,
                            "advertised under %s but the request cannot be encoded under it: %r" % (S.vs(v), e)))
            continue
        p = exchange(req, "session")
        if p.resp is not None:
            buckets += tag_problems(p.resp, v, "server-response")
        if p.resp is None or not p.items:
            buckets.append(("C16|query|advertised-operation-unavailable|" + name, "no answer under %s" % S.vs(v)))
        elif p.items[0]["operation"] is None:
            buckets.append(("C16|query|advertised-operation-unavailable|" + name,
                            "minimal valid %s under %s is not decodable: %s" % (name, S.vs(v), p.items[0]["message"])))
        elif R_ONS in reasons(p):
            buckets.append(("C16|query|advertised-operation-unavailable|" + name,
                            "%s advertised under %s but answered Operation Not Supported: %s"
                            % (name, S.vs(v), p.items[0]["message"])))
        elif refused(p):
            # 'actually available': the minimal valid request (it succeeds on the unchanged tree
            # for every operation the server implements) must be carried out
            buckets.append(("C16|query|advertised-operation-unavailable|" + name,
                            "%s advertised under %s but a minimal valid request fails: reason %s, %s"
                            % (name, S.vs(v), reasons(p), p.items[0]["message"])))
        else:
            classes.append("f:avail:success")
            if p.version != v:
                buckets.append(("C16|echo|session|header-version-differs", "%s under %s -> %s" % (name, S.vs(v), p.version)))
    return buckets, True, classes


# ====================================================================== dispatch
# ------------------------------------------------------------------ g: versions on one connection
G_OPS = ["GetAttributes", "GetAttributeList", "Get", "Locate", "Query", "DiscoverVersions"]


def cases_g():
    """Every ordered pair of supported versions on ONE connection: a first request under v1, then
    each read-only operation under v2 (and a third request under v1 again)."""
    out = []
    for v1 in H.VERSIONS:
        for v2 in H.VERSIONS:
            for op in G_OPS:
                if op == "DiscoverVersions" and min(tuple(v1), tuple(v2)) < (1, 1):
                    continue
                out.append({"part": "g", "v1": list(v1), "v2": list(v2), "op": op})
    return out


def run_g(spec):
    idx = _idx()
    v1, v2 = tuple(spec["v1"]), tuple(spec["v2"])
    first = {"v": list(v1), "items": [valid_item("GetAttributes", idx)]}
    second = {"v": list(v2), "items": [valid_item(spec["op"], idx)]}
    third = {"v": list(v1), "items": [valid_item(spec["op"], idx)]}
    frames = [H.encode_request(first), H.encode_request(second), H.encode_request(third)]
    server, _ = store.fresh_server()
    b = []
    try:
        H.CLOCK.tick()
        conn, errs = server.session(b"".join(frames), cn="alice")
        sent = list(conn.sent)
        if errs or len(sent) != 3:
            return [], False, ["g:session-irregular"]       # C12 judges the message loop
        # reference: the same request alone on a connection of its own (same store, same clock)
        alone = []
        for fr in frames[1:]:
            c2, e2 = server.session(fr, cn="alice")
            alone.append(c2.sent[0] if c2.sent and not e2 else None)
        for k, (v, fr) in enumerate(((v2, frames[1]), (v1, frames[2]))):
            resp = sent[k + 1]
            what = "response-to-request-%d-of-a-connection" % (k + 2)
            try:
                got = R.response_version(resp)
            except Exception as e:
                b.append(("C16|echo|connection|response-not-parseable", "%s: %r" % (what, e)))
                continue
            if tuple(got) != tuple(v):
                b.append(("C16|echo|connection|header-version-differs",
                          "%s under KMIP %s (earlier request on the connection: %s) says %s"
                          % (what, S.vs(v), S.vs(v1 if k == 0 else v2), S.vs(got))))
            b.extend(tag_problems(resp, v, "response|" + spec["op"]))
            if alone[k] is not None and alone[k] != resp:
                b.append(("C16|echo|connection|encoding-depends-on-earlier-request-version|" + spec["op"],
                          "%s under KMIP %s differs from the answer to the same request on a "
                          "connection of its own (earlier request on this connection: KMIP %s)"
                          % (what, S.vs(v), S.vs(v1 if k == 0 else v2))))
    finally:
        server.close()
    return b, v1 != v2, ["g:%s" % ("same-version" if v1 == v2 else "version-change")]


RUNNERS = {"a": run_a, "g": run_g, "b": run_b, "c1": run_c1, "c2": run_c2, "d1": run_d1, "d3": run_d3,
           "d4": run_d4, "e": run_e, "e-probe": run_e_probe, "f": run_f}


def run_case(spec):
    b, nt, cl = RUNNERS[spec["part"]](spec)
    seen = {}
    for k, d in b:
        seen.setdefault(k, d)
    return list(seen.items()), nt, cl


def replay(spec):
    return run_case(spec)[0]


def grid_cases():
    from vlib import c16_client
    cases = cases_a() + cases_b() + cases_c1() + cases_c2() + cases_d4() + cases_f() + cases_g()
    cases += c16_client.cases()
    cases += [{"part": "e-probe", "v": list(v)} for v in _POOL]
    return cases


def grid_worker(shard, nshards, stride=0, offset=0):
    col = core.Collector(PID)
    cases = grid_cases()
    if stride:
        cases = cases + cases_d2(stride, offset)
    for i, spec in enumerate(cases):
        if i % nshards != shard:
            continue
        b, nt, cl = run_case(spec)
        part = "d2" if spec.get("label", "").startswith("menu:") else spec["part"]
        if nt:
            col.bump("boundary_cells:" + part)
        col.record(spec, nontrivial=nt, classes=["part:" + part] + cl, buckets=b)
    return col


def e_worker(n, seed):
    col = core.Collector(PID)

    def one(spec):
        if spec.get("reordered"):
            col.exclude("client list whose supported entries were drawn out of order, re-ordered "
                        "newest first (confirmed defect: DiscoverVersions echoes the client's "
                        "order); the any-order path (1 in 8) keeps reaching it")
        b, nt, cl = run_case(spec)
        if nt:
            col.bump("boundary_cells:e")
        col.record(spec, nontrivial=nt, classes=["part:e"] + cl, buckets=b)

    core.draw_examples(gen_e(), n, seed, one)
    return col


def run(ctx):
    store.standard_template()
    n = max(2, core.NCPU)
    stride = ctx.n(8, 1)
    jobs = [(i, n, stride, ctx.seed) for i in range(n)]
    dicts = core.run_sharded("vlib.props.c16", "grid_worker", jobs)
    ne = ctx.n(360, 6000)
    dicts += core.run_sharded("vlib.props.c16", "e_worker",
                              [(ne // n, core.derive_seed(ctx.seed, "c16e", i)) for i in range(n)])
    from vlib import codec_table as CT
    units = d1_units()
    nd = ctx.n(10, 80)
    per = [units[i::n] for i in range(n)]
    rows = sorted(r.name for r in CT.concrete_rows())
    dicts += core.run_sharded("vlib.props.c16", "d1_worker",
                              [(u, nd, core.derive_seed(ctx.seed, "c16d1", i), rows[i::n])
                               for i, u in enumerate(per) if u])
    col = core.merged(PID, dicts)
    ungated = {k[4:]: col.extra.pop(k) for k in sorted(col.extra) if k.startswith("d1n:")}
    col.extra["raw_object_later_tags_not_judged"] = ungated
    col.extra["exhaustive"] = True
    col.extra["exhaustive_parts"] = {
        "a": "13 versions x %d operations x paths" % len(LIB_OPS),
        "b": "%d operations x 6 versions x encodings" % (len(LIB_OPS) + len(RAW_OPS)),
        "c1": "%d attributes x 6 versions x %d carriers (cells the request language can express)"
              % (len(S.ATTR_SINCE) + len(CONTROL_ATTRS), len(CARRIERS)),
        "c2": "%d objects x 6 versions x %d reads" % (len(C2_OBJECTS), len(C2_READS)),
        "d1": "exhaustive over (row, version, out-of-interval field) = %d units; values sampled (%d each)" % (len(units), nd),
        "d3": "every ProxyKmipClient method x 6 versions",
        "d4": "menu x 6 versions", "e-probe": "%d versions" % len(_POOL),
        "d2": ("shared request menus x 6 versions, " + ("every 8th entry (offset = seed)" if stride > 1
                                                         else "complete")),
        "e": "NOT exhaustive: %d Hypothesis client lists" % ne,
        "f": "6 versions x %d function sets x advertised operations" % len(F_FUNCTIONS),
        "g": "6 x 6 ordered version pairs x %d read-only operations on one connection" % len(G_OPS)}
    col.extra["boundary_cells_per_part"] = {k.split(":", 1)[1]: col.extra.pop(k)
                                            for k in sorted(col.extra) if k.startswith("boundary_cells:")}
    col.extra["boundary_cells_distinct"] = len(col.nontrivial)
    return col
