"""atheris/libFuzzer stage of C01 (thorough tier only; run as a subprocess by vlib.props.c01).

usage: python -m vlib.c01_fuzz <outdir> <seed> <runs>

The target decodes the same bytes as every message / batch item / header / payload class whose
outer tag matches, under every KMIP version of that class, and applies the *backward* oracle of
C01 inside the target (dec -> enc -> dec gives the same value); a crash-only target would check
nothing here.  Oracle failures do not crash the fuzzer: they are written to <outdir>/findings.json
(bucket -> smallest input) and the search continues.  Seed corpus = encodings of values drawn from
the codec table (the same generator as the forward pass), deterministically from <seed>.
"""
import json
import os
import sys

import atheris

with atheris.instrument_imports(include=["kmip.core"]):
    import kmip.core.messages.messages   # noqa: F401
    import kmip.core.messages.payloads   # noqa: F401
    import kmip.core.objects             # noqa: F401
    import kmip.core.secrets             # noqa: F401

from vlib import codec_table as T       # noqa: E402
from vlib import core                   # noqa: E402
from vlib.props import c01              # noqa: E402

TARGET_GROUPS = ("payload", "message")


def targets():
    by_tag = {}
    for r in T.concrete_rows():
        if r.group not in TARGET_GROUPS:
            continue
        try:
            tag = r.cls().tag.value
        except Exception:
            continue        # simple wrappers needing arguments are covered by their parents
        if r.cls().type.value != 1:
            continue
        by_tag.setdefault(tag, []).append(r)
    return by_tag


def write_seeds(corpus, seed, per_pair=3):
    n = [0]
    for rows in targets().values():
        for r in rows:
            for v in r.versions():
                def fn(spec, r=r, v=v):
                    try:
                        b = T.encode(T.build(spec), v)
                    except Exception:
                        return
                    with open(os.path.join(corpus, "%05d" % n[0]), "wb") as f:
                        f.write(b)
                    n[0] += 1
                core.draw_examples(T.strategy_for(r.name, v, probe_rate=0), per_pair,
                                   core.derive_seed(seed, "fuzz", r.name, v[0], v[1]), fn)
    return n[0]


def main():
    outdir, seed, runs = sys.argv[1], int(sys.argv[2]), int(sys.argv[3])
    corpus = os.path.join(outdir, "corpus")
    os.makedirs(corpus, exist_ok=True)
    nseeds = write_seeds(corpus, seed)
    by_tag = targets()
    findings = {}
    stats = {"execs": 0, "decodes": 0, "accepted": 0, "rejected": 0, "skipped_textpad": 0,
             "seeds": nseeds, "target_classes": sum(len(v) for v in by_tag.values())}

    def flush():
        tmp = os.path.join(outdir, "findings.json.tmp")
        with open(tmp, "w") as f:
            json.dump({"findings": findings, "stats": stats}, f)
        os.replace(tmp, os.path.join(outdir, "findings.json"))

    def one(data):
        stats["execs"] += 1
        if stats["execs"] % 2000 == 0:
            flush()
        if len(data) < 8:
            return
        rows = by_tag.get(int.from_bytes(data[:3], "big"))
        if not rows:
            return
        for r in rows:
            for v in r.versions():
                stats["decodes"] += 1
                verdict, buckets = c01.backward(r.name, v, bytes(data), None)
                stats[verdict] = stats.get(verdict, 0) + 1
                for key, detail in buckets:
                    cur = findings.get(key)
                    if cur is None or len(data) < len(cur["raw"]) // 2:
                        findings[key] = {"cls": r.name, "v": list(v), "raw": bytes(data).hex(),
                                         "detail": detail[:600]}
                        flush()

    flush()
    atheris.Setup([sys.argv[0], corpus, "-runs=%d" % runs, "-seed=%d" % (seed % (2 ** 31)),
                   "-max_len=4096", "-timeout=30", "-print_final_stats=0", "-verbosity=0",
                   "-artifact_prefix=%s/" % outdir], one)
    try:
        atheris.Fuzz()
    finally:
        flush()


if __name__ == "__main__":
    main()
