"""A deterministic cooperative scheduler for real threads: exactly one managed thread runs at a
time; threads hand over control only at yield points (function calls inside chosen source files,
SQL statements, lock operations); the next thread is taken from a choice sequence."""
import sys
import threading


class Deadlock(Exception):
    pass


class Scheduler(object):
    def __init__(self, choices, trace_files=(), policy=None):
        self.choices = list(choices)
        self.policy = policy
        self.ci = 0
        self.cv = threading.Condition()
        self.current = None            # tid allowed to run
        self.state = {}                # tid -> "ready" | "blocked" | "done"
        self.by_ident = {}             # thread ident -> tid
        self.trace_files = tuple(trace_files)
        self.switches = 0
        self.inner_switches = 0        # switches away from a thread that is inside a request
        self.yield_points = 0
        self.in_request = {}           # tid -> bool
        self.errors = {}
        self.trace = []                # (tid, what) of switches, for the replay file
        self.dead = False

    # ------------------------------------------------------------ thread bodies
    def run(self, fns, timeout=30.0):
        threads = []
        for tid, fn in enumerate(fns):
            self.state[tid] = "ready"
            self.in_request[tid] = False
            t = threading.Thread(target=self._body, args=(tid, fn), daemon=True)
            threads.append(t)
        for t in threads:
            t.start()
        with self.cv:
            self.current = self._pick(None)
            self.cv.notify_all()
        for t in threads:
            t.join(timeout)
            if t.is_alive():
                self.dead = True
                with self.cv:
                    self.current = -1
                    self.cv.notify_all()
                return False
        return True

    def _body(self, tid, fn):
        self.by_ident[threading.get_ident()] = tid
        with self.cv:
            while self.current != tid:
                self.cv.wait()
        if self.trace_files:
            sys.settrace(self._tracer)
        try:
            fn()
        except BaseException as e:      # recorded, judged by the caller
            self.errors[tid] = e
        finally:
            sys.settrace(None)
            with self.cv:
                self.state[tid] = "done"
                try:
                    nxt = self._pick(None)
                except Deadlock:
                    self.dead = True
                    nxt = -1
                self.current = nxt
                self.cv.notify_all()

    def _tracer(self, frame, event, arg):
        if event == "call":
            fn = frame.f_code.co_filename
            if fn.endswith(self.trace_files):
                self.yield_point("call:" + frame.f_code.co_name)
        return None

    def tid(self):
        return self.by_ident.get(threading.get_ident())

    # ------------------------------------------------------------ scheduling
    def _ready(self):
        return sorted(t for t, s in self.state.items() if s == "ready")

    def _pick(self, cur, what=""):
        """Choose the next thread to run. cur: the running thread (may stay) or None.
        With a policy (dict kind -> percentage) a choice value below the percentage of the yield
        point's kind means 'switch'; without one, any non-zero choice switches."""
        ready = self._ready()
        if not ready:
            if any(s == "blocked" for s in self.state.values()):
                raise Deadlock("all live threads are blocked")
            return None
        if cur is not None and cur in ready:
            if len(ready) == 1 or not self.choices:
                return cur
            if self.policy is not None:
                # a kind that never switches does not use up the choice sequence, and the
                # sequence is read cyclically: the end of a long workload is explored like its start
                kind = what.split(":", 1)[0]
                pct = self.policy.get(kind, self.policy.get("call", 0))
                if pct <= 0:
                    return cur
                c = self.choices[self.ci % len(self.choices)]
                self.ci += 1
                others = [t for t in ready if t != cur]
                if c % 100 < pct:
                    return others[(c // 100) % len(others)]
                return cur
            if self.ci >= len(self.choices):
                return cur
            c = self.choices[self.ci]
            self.ci += 1
            others = [t for t in ready if t != cur]
            if self.policy is not None:
                kind = what.split(":", 1)[0]
                if c % 100 < self.policy.get(kind, self.policy.get("call", 0)):
                    return others[(c // 100) % len(others)]
                return cur
            if c == 0:
                return cur
            return others[(c - 1) % len(others)]
        if self.ci < len(self.choices) and len(ready) > 1:
            c = self.choices[self.ci]
            self.ci += 1
            return ready[c % len(ready)]
        return ready[0]

    def decide(self, what):
        """A yes/no decision taken from the choice sequence (percentage per kind with a policy,
        every third value otherwise); False when the sequence is used up."""
        with self.cv:
            if self.policy is not None:
                pct = self.policy.get(what, 0)
                if pct <= 0 or not self.choices:
                    return False
                c = self.choices[self.ci % len(self.choices)]
                self.ci += 1
                return c % 100 < pct
            if self.ci >= len(self.choices):
                return False
            c = self.choices[self.ci]
            self.ci += 1
            return c % 3 == 2

    def yield_point(self, what=""):
        tid = self.tid()
        if tid is None or self.dead:
            return
        with self.cv:
            self.yield_points += 1
            nxt = self._pick(tid, what)
            if nxt != tid:
                self._switch(tid, nxt, what)

    def _switch(self, tid, nxt, what):
        self.switches += 1
        if self.in_request.get(tid):
            self.inner_switches += 1
        if len(self.trace) < 400:
            self.trace.append([tid, nxt, what])
        self.current = nxt
        self.cv.notify_all()
        while self.current != tid:
            self.cv.wait()
            if self.dead:
                raise SystemExit

    def block(self, tid, what="lock"):
        """Called by a thread that cannot proceed; returns when it was made ready and chosen."""
        with self.cv:
            self.state[tid] = "blocked"
            nxt = self._pick(None)
            self._switch(tid, nxt, "blocked:" + what)

    def unblock(self, tids):
        with self.cv:
            for t in tids:
                if self.state.get(t) == "blocked":
                    self.state[t] = "ready"


class SchedLock(object):
    """A lock with the semantics of the lock it replaces - threading.RLock (re-entrant, only the
    owner may release) or threading.Lock (not re-entrant, anybody may release) - cooperating with
    the scheduler.  The harness owns time: an acquire with a finite timeout that finds the lock
    taken may be made to time out (return False), as the choice sequence decides."""

    def __init__(self, sched, reentrant=True):
        self.sched = sched
        self.reentrant = reentrant
        self.owner = None
        self.count = 0
        self.waiters = []
        self.timeouts = 0
        self._real = threading.RLock() if reentrant else threading.Lock()

    def acquire(self, blocking=True, timeout=-1):
        tid = self.sched.tid()
        if tid is None:
            return self._real.acquire(blocking, timeout)
        self.sched.yield_point("lock-acquire")
        finite = (not blocking) or (timeout is not None and timeout >= 0)
        while self.owner is not None and not (self.reentrant and self.owner == tid):
            if finite and (not blocking or self.sched.decide("lock-timeout")):
                self.timeouts += 1
                return False
            if tid not in self.waiters:
                self.waiters.append(tid)
            self.sched.block(tid)
        if tid in self.waiters:
            self.waiters.remove(tid)
        self.owner = tid
        self.count += 1
        return True

    def release(self):
        tid = self.sched.tid()
        if tid is None:
            return self._real.release()
        if self.reentrant:
            if self.owner != tid:
                raise RuntimeError("cannot release un-acquired lock")
            self.count -= 1
        else:
            if self.owner is None:
                raise RuntimeError("release unlocked lock")
            self.count = 0          # a plain lock has no owner: anybody's release frees it
        if self.count == 0:
            self.owner = None
            self.sched.unblock(list(self.waiters))
            self.sched.yield_point("lock-release")

    def locked(self):
        return self.owner is not None

    __enter__ = acquire

    def __exit__(self, *a):
        self.release()
