"""C19 operation table, part 3: rekey, derive_key, locate, check, attribute operations, query,
discover_versions."""
from hypothesis import strategies as st

from vlib import ttlvref as T
from vlib import c19_wire as W
from vlib import c19_codec as C
from vlib.c19_ops import (Op, reg, opt, uid_s, text_s, bytes_s, nbytes_s, masks_s, alg_s, date_s,
                          cp_s, orbits, plain, _E, lib_cp, lib_cp_dict, lib_masks, lib_attr,
                          lib_template, chk_val, chk_attr, template_of)

DATE_KW = [("activation_date", "Activation Date"), ("process_start_date", "Process Start Date"),
           ("protect_stop_date", "Protect Stop Date"), ("deactivation_date", "Deactivation Date")]


@reg
class Rekey(Op):
    name = "rekey"

    def args(self, v, api):
        return st.fixed_dictionaries(
            {"uid": opt(uid_s), "offset": opt(st.integers(0, 10 ** 6))},
            optional={k: date_s for k, _ in DATE_KW})

    def call(self, api, c, a, v):
        dates = {k: a[k] for k, _ in DATE_KW if k in a}
        if api == "pie":
            return c.rekey(uid=a["uid"], offset=a["offset"], **dates)
        attrs = [(n, a[k]) for k, n in DATE_KW if k in a]
        return c.proxy.rekey(uuid=a["uid"], offset=a["offset"],
                             template_attribute=lib_template(attrs))

    def check(self, a, pl, v, api):
        probs = []
        chk_val(probs, pl, W.UNIQUE_IDENTIFIER, a["uid"], "uid")
        chk_val(probs, pl, W.OFFSET, a["offset"], "offset")
        at = template_of(pl, v)
        for k, n in DATE_KW:
            chk_attr(probs, at, n, a.get(k), k)
        return probs


@reg
class DeriveKey(Op):
    name = "derive_key"

    def args(self, v, api):
        dp = st.fixed_dictionaries({}, optional={
            "cp": cp_s(), "iv": nbytes_s, "data": bytes_s, "salt": bytes_s,
            "iter": st.integers(1, 100000)})
        return st.fixed_dictionaries(
            {"otype": st.sampled_from([W.OT_SYMMETRIC_KEY, W.OT_SECRET_DATA]),
             "uids": st.lists(uid_s, min_size=1, max_size=3),
             "method": st.integers(1, 8), "dp": dp},
            optional={"len": st.integers(1, 4096), "alg": alg_s})

    def call(self, api, c, a, v):
        E = _E()
        dp = a["dp"]
        if api == "pie":
            d = {}
            if "cp" in dp:
                d["cryptographic_parameters"] = lib_cp_dict(dp["cp"])
            for k, dst in (("iv", "initialization_vector"), ("data", "derivation_data"), ("salt", "salt")):
                if k in dp:
                    d[dst] = W.unhex(dp[k])
            if "iter" in dp:
                d["iteration_count"] = dp["iter"]
            kw = {}
            if "len" in a:
                kw["cryptographic_length"] = a["len"]
            if "alg" in a:
                kw["cryptographic_algorithm"] = E.CryptographicAlgorithm(a["alg"])
            return c.derive_key(E.ObjectType(a["otype"]), list(a["uids"]),
                                E.DerivationMethod(a["method"]), d, **kw)
        from kmip.core import attributes
        params = attributes.DerivationParameters(
            cryptographic_parameters=lib_cp(dp.get("cp")),
            initialization_vector=W.unhex(dp.get("iv")), derivation_data=W.unhex(dp.get("data")),
            salt=W.unhex(dp.get("salt")), iteration_count=dp.get("iter"))
        attrs = []
        if "len" in a:
            attrs.append(("Cryptographic Length", a["len"]))
        if "alg" in a:
            attrs.append(("Cryptographic Algorithm", a["alg"]))
        return c.proxy.derive_key(E.ObjectType(a["otype"]), list(a["uids"]),
                                  E.DerivationMethod(a["method"]), params, lib_template(attrs))

    def check(self, a, pl, v, api):
        probs = []
        chk_val(probs, pl, W.OBJECT_TYPE, a["otype"], "object_type")
        got = [c["value"] for c in W.kids(pl, W.UNIQUE_IDENTIFIER)]
        if got != list(a["uids"]):
            probs.append("unique_identifiers sent as %r, given %r" % (got, a["uids"]))
        chk_val(probs, pl, W.DERIVATION_METHOD, a["method"], "derivation_method")
        dpn = W.kid(pl, W.DERIVATION_PARAMETERS)
        dp = a["dp"]
        if dpn is None:
            probs.append("derivation parameters missing from the request")
        C.check_cp(probs, W.kid(dpn, W.CRYPTOGRAPHIC_PARAMETERS), dp.get("cp"), "derivation_parameters")
        chk_val(probs, dpn, W.INITIALIZATION_VECTOR, dp.get("iv"), "initialization_vector")
        chk_val(probs, dpn, W.DERIVATION_DATA, dp.get("data"), "derivation_data")
        chk_val(probs, dpn, W.SALT, dp.get("salt"), "salt")
        chk_val(probs, dpn, W.ITERATION_COUNT, dp.get("iter"), "iteration_count")
        at = template_of(pl, v)
        chk_attr(probs, at, "Cryptographic Length", a.get("len"), "cryptographic_length")
        chk_attr(probs, at, "Cryptographic Algorithm", a.get("alg"), "cryptographic_algorithm")
        return probs


LOCATE_ATTRS = [("Name", text_s), ("Object Type", st.sampled_from([1, 2, 3, 4, 5, 7, 8])),
                ("Cryptographic Algorithm", alg_s), ("Cryptographic Length", st.integers(1, 4096)),
                ("State", st.integers(1, 6))]


@reg
class Locate(Op):
    name = "locate"

    def args(self, v, api):
        attr = st.one_of(*[st.tuples(st.just(n), s).map(list) for n, s in LOCATE_ATTRS])
        return st.fixed_dictionaries({
            "max": opt(st.integers(0, 1000)), "offset": opt(st.integers(0, 1000)),
            "ssm": opt(st.integers(1, 7)), "ogm": opt(st.integers(1, 2)),
            "attrs": opt(st.lists(attr, min_size=0, max_size=3, unique_by=lambda x: x[0]))})

    def call(self, api, c, a, v):
        E = _E()
        fn = c.locate if api == "pie" else c.proxy.locate
        attrs = None if a["attrs"] is None else [lib_attr(n, x) for n, x in a["attrs"]]
        return fn(maximum_items=a["max"], offset_items=a["offset"], storage_status_mask=a["ssm"],
                  object_group_member=None if a["ogm"] is None else E.ObjectGroupMember(a["ogm"]),
                  attributes=attrs)

    def check(self, a, pl, v, api):
        probs = []
        chk_val(probs, pl, W.MAXIMUM_ITEMS, a["max"], "maximum_items")
        if tuple(v) >= (1, 3):      # Offset Items exists from KMIP 1.3 on
            chk_val(probs, pl, W.OFFSET_ITEMS, a["offset"], "offset_items")
        chk_val(probs, pl, W.STORAGE_STATUS_MASK, a["ssm"], "storage_status_mask")
        if tuple(v) >= (1, 1):      # Object Group Member exists from KMIP 1.1 on
            chk_val(probs, pl, W.OBJECT_GROUP_MEMBER, a["ogm"], "object_group_member")
        if tuple(v) >= (2, 0):
            at = W.request_attrs(W.kid(pl, W.ATTRIBUTES), v)
        else:
            at = W.request_attrs(pl, v)
        for n, x in a["attrs"] or []:
            chk_attr(probs, at, n, x, "attributes[%s]" % n)
        if len(at) != len(a["attrs"] or []):
            probs.append("request carries %d attribute filters, %d were given"
                         % (len(at), len(a["attrs"] or [])))
        return probs

    def payload(self, v):
        d = {"uids": st.lists(uid_s, min_size=0, max_size=5)}
        o = {"located": st.integers(0, 100)} if tuple(v) >= (1, 3) else {}
        return st.fixed_dictionaries(d, optional=o)

    def enc(self, p, v):
        out = []
        if p.get("located") is not None:
            out.append(T.encode_integer(W.LOCATED_ITEMS, p["located"]))
        return out + [T.encode_text(W.UNIQUE_IDENTIFIER, u) for u in p["uids"]]

    def dec(self, node, v):
        p = {"uids": [c["value"] for c in W.kids(node, W.UNIQUE_IDENTIFIER)]}
        x = W.val(node, W.LOCATED_ITEMS)
        if x is not None:
            p["located"] = x
        return p

    def expect(self, api, p, v):
        return list(p["uids"]) if api == "pie" else {"uids": list(p["uids"])}

    def observe(self, api, r, v):
        if api == "pie":
            return plain(r)
        return {"uids": plain(self.field(r, "uuids"))}


@reg
class Check(Op):
    name = "check"

    def args(self, v, api):
        # cryptographic_usage_mask omitted (documented default) is a known defect: see KNOWN_PATHS
        return st.fixed_dictionaries({"uid": opt(uid_s), "count": opt(st.integers(0, 10 ** 6)),
                                      "masks": masks_s, "lease": opt(st.integers(0, 10 ** 6))})

    def call(self, api, c, a, v):
        fn = c.check if api == "pie" else c.proxy.check
        return fn(a["uid"], a["count"], lib_masks(a["masks"]), a["lease"])

    def check(self, a, pl, v, api):
        probs = []
        chk_val(probs, pl, W.UNIQUE_IDENTIFIER, a["uid"], "uid")
        chk_val(probs, pl, W.USAGE_LIMITS_COUNT, a["count"], "usage_limits_count")
        if a["masks"]:
            chk_val(probs, pl, W.CRYPTOGRAPHIC_USAGE_MASK, orbits(a["masks"]), "cryptographic_usage_mask")
        chk_val(probs, pl, W.LEASE_TIME, a["lease"], "lease_time")
        return probs

    def payload(self, v):
        return st.fixed_dictionaries({"uid": uid_s}, optional={
            # zero is a value like any other: a constraint that is present and zero is reported
            "count": st.one_of(st.just(0), st.integers(0, 10 ** 6)),
            "mask": st.one_of(st.just(0), st.integers(0, 0xFFFFF)),
            "lease": st.one_of(st.just(0), st.integers(0, 10 ** 6))})

    def enc(self, p, v):
        out = [T.encode_text(W.UNIQUE_IDENTIFIER, p["uid"])]
        if "count" in p:
            out.append(T.encode_long(W.USAGE_LIMITS_COUNT, p["count"]))
        if "mask" in p:
            out.append(T.encode_integer(W.CRYPTOGRAPHIC_USAGE_MASK, p["mask"]))
        if "lease" in p:
            out.append(T.encode_interval(W.LEASE_TIME, p["lease"]))
        return out

    def dec(self, node, v):
        p = {"uid": W.val(node, W.UNIQUE_IDENTIFIER)}
        for k, t in (("count", W.USAGE_LIMITS_COUNT), ("mask", W.CRYPTOGRAPHIC_USAGE_MASK),
                     ("lease", W.LEASE_TIME)):
            x = W.val(node, t)
            if x is not None:
                p[k] = x
        return p

    def expect(self, api, p, v):
        if api == "pie":
            return p["uid"]
        return {"uid": p["uid"], "count": p.get("count"), "mask": p.get("mask"), "lease": p.get("lease")}

    def observe(self, api, r, v):
        if api == "pie":
            return plain(r)
        m = self.field(r, "cryptographic_usage_mask")
        return {"uid": plain(self.field(r, "unique_identifier")),
                "count": plain(self.field(r, "usage_limits_count")),
                "mask": None if m is None else orbits(plain(m)),   # documented: list of masks
                "lease": plain(self.field(r, "lease_time"))}


# ----------------------------------------------------------------------------- attributes
def resp_attr_s(v):
    """[name, index|None, value] of attributes a server may return."""
    two = tuple(v) >= (2, 0)
    idx = st.just(None) if two else opt(st.integers(0, 3))
    cands = [
        ("Cryptographic Algorithm", alg_s), ("Cryptographic Length", st.integers(0, 4096)),
        ("Cryptographic Usage Mask", st.integers(0, 0xFFFFF)), ("State", st.integers(1, 6)),
        ("Object Type", st.sampled_from([1, 2, 3, 4, 5, 7, 8])),
        ("Name", st.fixed_dictionaries({"v": text_s, "t": st.integers(1, 2)})),
        ("Initial Date", date_s), ("Unique Identifier", uid_s), ("Object Group", text_s),
        ("Application Specific Information", st.fixed_dictionaries({"ns": text_s, "data": text_s})),
    ]
    if not two:
        cands.append(("Operation Policy Name", text_s))
    if tuple(v) >= (1, 4):
        cands.append(("Sensitive", st.booleans()))
    return st.one_of(*[st.tuples(st.just(n), idx, s).map(list) for n, s in cands])


def attr_plain(a):
    """kmip.core.objects.Attribute (documented return type) -> [name, index, value]."""
    name = plain(getattr(a, "attribute_name", None))
    idx = plain(getattr(a, "attribute_index", None))
    val = getattr(a, "attribute_value", None)
    return [name, idx, attr_value_plain(val)]


def attr_value_plain(val):
    from kmip.core import attributes as cattr
    if isinstance(val, cattr.Name):
        return {"v": plain(val.name_value), "t": plain(val.name_type)}
    if isinstance(val, cattr.ApplicationSpecificInformation):
        return {"ns": plain(val.application_namespace), "data": plain(val.application_data)}
    return plain(val)


def norm_attr(a, v):
    """Wire-side normal form: an absent index and index 0 denote the same instance (spec 2.1.1)."""
    n, i, x = a
    return [n, i or 0, x]


@reg
class GetAttributes(Op):
    name = "get_attributes"
    NAMES = ["Cryptographic Algorithm", "Cryptographic Length", "Name", "State", "Object Type",
             "Cryptographic Usage Mask", "Initial Date"]

    def args(self, v, api):
        return st.fixed_dictionaries({
            "uid": opt(uid_s),
            "names": opt(st.lists(st.sampled_from(self.NAMES), min_size=1, max_size=4, unique=True))})

    def call(self, api, c, a, v):
        fn = c.get_attributes if api == "pie" else c.proxy.get_attributes
        return fn(a["uid"], None if a["names"] is None else list(a["names"]))

    def check(self, a, pl, v, api):
        probs = []
        chk_val(probs, pl, W.UNIQUE_IDENTIFIER, a["uid"], "uid")
        got = [c["value"] for c in W.kids(pl, W.ATTRIBUTE_NAME)]
        for c in W.kids(pl, W.ATTRIBUTE_REFERENCE):       # KMIP 2.0
            if "children" in c:
                got.append(W.val(c, W.ATTRIBUTE_NAME))
            else:
                got.append(W.ATTR_NAME.get(c["value"], "tag:%06x" % c["value"]))
        if got != list(a["names"] or []):
            probs.append("attribute_names sent as %r, given %r" % (got, a["names"]))
        return probs

    def payload(self, v):
        return st.fixed_dictionaries({"uid": uid_s,
                                      "attrs": st.lists(resp_attr_s(v), min_size=0, max_size=5)})

    def enc(self, p, v):
        out = [T.encode_text(W.UNIQUE_IDENTIFIER, p["uid"])]
        enc = [C.enc_attribute(a, v) for a in p["attrs"]]
        if tuple(v) >= (2, 0):
            return out + [T.encode_struct(W.ATTRIBUTES, enc)]
        return out + enc

    def dec(self, node, v):
        if tuple(v) >= (2, 0):
            at = [C.dec_attribute(c, v) for c in (W.kid(node, W.ATTRIBUTES) or {}).get("children", [])]
        else:
            at = [C.dec_attribute(c, v) for c in W.kids(node, W.ATTRIBUTE)]
        return {"uid": W.val(node, W.UNIQUE_IDENTIFIER), "attrs": at}

    def expect(self, api, p, v):
        at = [norm_attr(a, v) for a in p["attrs"]]
        return [p["uid"], at] if api == "pie" else {"uid": p["uid"], "attrs": at}

    def observe(self, api, r, v):
        def attrs(x):
            if not isinstance(x, (list, tuple)):
                return plain(x)
            return [norm_attr(attr_plain(a), v) for a in x]
        if api == "pie":
            if not isinstance(r, tuple) or len(r) != 2:
                return plain(r)
            return [plain(r[0]), attrs(r[1])]
        return {"uid": plain(self.field(r, "uuid")), "attrs": attrs(self.field(r, "attributes"))}


class _AttrModOp(Op):
    """delete_attribute / modify_attribute / set_attribute: pie methods over
    KMIPProxy.send_request_payload; the proxy API is send_request_payload itself."""
    proxy_returns_payload = True

    def build(self, a, v):
        raise NotImplementedError

    def call(self, api, c, a, v):
        if api == "pie":
            return getattr(c, self.name)(a["uid"], **self.kwargs(a, v))
        E = _E()
        return c.proxy.send_request_payload(E.Operation(self.code), self.build(a, v))

    def payload(self, v):
        d = {"uid": uid_s}
        if tuple(v) < (2, 0) and self.name != "set_attribute":
            d["attr"] = resp_attr_s(v)
        return st.fixed_dictionaries(d)

    def enc(self, p, v):
        out = [T.encode_text(W.UNIQUE_IDENTIFIER, p["uid"])]
        if "attr" in p:
            out.append(C.enc_attribute(p["attr"], v))
        return out

    def dec(self, node, v):
        p = {"uid": W.val(node, W.UNIQUE_IDENTIFIER)}
        a = W.kid(node, W.ATTRIBUTE)
        if a is not None:
            p["attr"] = C.dec_attribute(a, v)
        return p

    def expect(self, api, p, v):
        at = None if "attr" not in p else norm_attr(p["attr"], v)
        if self.name == "set_attribute":
            return p["uid"] if api == "pie" else {"uid": p["uid"]}
        return [p["uid"], at] if api == "pie" else {"uid": p["uid"], "attr": at}

    def observe(self, api, r, v):
        def one(x):
            return None if x is None else norm_attr(attr_plain(x), v)
        if api == "pie":
            if self.name == "set_attribute":
                return plain(r)
            if not isinstance(r, tuple) or len(r) != 2:
                return plain(r)
            return [plain(r[0]), one(r[1])]
        d = {"uid": plain(self.field(r, "unique_identifier"))}
        if self.name != "set_attribute":
            d["attr"] = one(self.field(r, "attribute"))
        return d


def _v2_value(name, value):
    """A bare KMIP 2.0 attribute object for CurrentAttribute / NewAttribute."""
    from kmip.core import primitives
    E = _E()
    if name == "Object Group":
        return primitives.TextString(value, E.Tags.OBJECT_GROUP)
    if name == "Cryptographic Length":
        return primitives.Integer(value, E.Tags.CRYPTOGRAPHIC_LENGTH)
    if name == "Sensitive":
        return primitives.Boolean(value, E.Tags.SENSITIVE)
    raise ValueError(name)


V2_ATTR = st.one_of(st.tuples(st.just("Object Group"), text_s).map(list),
                    st.tuples(st.just("Cryptographic Length"), st.integers(1, 4096)).map(list),
                    st.tuples(st.just("Sensitive"), st.booleans()).map(list))
W.ATTR_KIND.setdefault("Sensitive", "bool")


def _chk_v2(probs, node, want, what):
    if want is None:
        if node is not None:
            probs.append("%s sent although omitted" % what)
        return
    if node is None or not node.get("children"):
        probs.append("%s missing from the request" % what)
        return
    c = node["children"][0]
    got = [W.ATTR_NAME.get(c["tag"], "tag:%06x" % c["tag"]), C.dec_attr_value(c)]
    if got != list(want):
        probs.append("%s sent as %r, given %r" % (what, got, want))


@reg
class DeleteAttribute(_AttrModOp):
    name = "delete_attribute"

    def args(self, v, api):
        if tuple(v) >= (2, 0):
            ref = st.sampled_from(["Object Group", "Cryptographic Length", "Name"])
            return st.one_of(
                st.fixed_dictionaries({"uid": opt(uid_s), "cur": V2_ATTR}),
                st.fixed_dictionaries({"uid": opt(uid_s), "ref": st.tuples(text_s, ref).map(list)}))
        return st.fixed_dictionaries({"uid": opt(uid_s), "aname": st.sampled_from(
            ["Name", "Object Group", "Contact Information", "x-custom"])},
            optional={"aindex": st.integers(0, 5)})

    def kwargs(self, a, v):
        from kmip.core import objects as cobj
        kw = {}
        if "aname" in a:
            kw["attribute_name"] = a["aname"]
        if "aindex" in a:
            kw["attribute_index"] = a["aindex"]
        if "cur" in a:
            kw["current_attribute"] = cobj.CurrentAttribute(attribute=_v2_value(*a["cur"]))
        if "ref" in a:
            kw["attribute_reference"] = cobj.AttributeReference(
                vendor_identification=a["ref"][0], attribute_name=a["ref"][1])
        return kw

    def build(self, a, v):
        from kmip.core.messages import payloads
        return payloads.DeleteAttributeRequestPayload(unique_identifier=a["uid"], **self.kwargs(a, v))

    def check(self, a, pl, v, api):
        probs = []
        chk_val(probs, pl, W.UNIQUE_IDENTIFIER, a["uid"], "unique_identifier")
        if tuple(v) >= (2, 0):
            _chk_v2(probs, W.kid(pl, W.CURRENT_ATTRIBUTE), a.get("cur"), "current_attribute")
            ref = W.kid(pl, W.ATTRIBUTE_REFERENCE)
            if "ref" in a:
                chk_val(probs, ref, W.VENDOR_IDENTIFICATION, a["ref"][0], "vendor_identification")
                chk_val(probs, ref, W.ATTRIBUTE_NAME, a["ref"][1], "attribute_reference name")
            elif ref is not None:
                probs.append("attribute_reference sent although omitted")
        else:
            chk_val(probs, pl, W.ATTRIBUTE_NAME, a.get("aname"), "attribute_name")
            chk_val(probs, pl, W.ATTRIBUTE_INDEX, a.get("aindex"), "attribute_index")
        return probs


@reg
class ModifyAttribute(_AttrModOp):
    name = "modify_attribute"

    def args(self, v, api):
        if tuple(v) >= (2, 0):
            return st.fixed_dictionaries({"uid": opt(uid_s), "new": V2_ATTR}, optional={"cur": V2_ATTR})
        attr = st.one_of(
            st.tuples(st.just("Name"), text_s, opt(st.integers(0, 3))).map(list),
            st.tuples(st.just("Object Group"), text_s, opt(st.integers(0, 3))).map(list),
            st.tuples(st.just("Cryptographic Length"), st.integers(1, 4096), st.none()).map(list))
        return st.fixed_dictionaries({"uid": opt(uid_s), "attr": attr})

    def kwargs(self, a, v):
        from kmip.core import objects as cobj
        kw = {}
        if "attr" in a:
            kw["attribute"] = lib_attr(*a["attr"])
        if "cur" in a:
            kw["current_attribute"] = cobj.CurrentAttribute(attribute=_v2_value(*a["cur"]))
        if "new" in a:
            kw["new_attribute"] = cobj.NewAttribute(attribute=_v2_value(*a["new"]))
        return kw

    def build(self, a, v):
        from kmip.core.messages import payloads
        return payloads.ModifyAttributeRequestPayload(unique_identifier=a["uid"], **self.kwargs(a, v))

    def check(self, a, pl, v, api):
        probs = []
        chk_val(probs, pl, W.UNIQUE_IDENTIFIER, a["uid"], "unique_identifier")
        if tuple(v) >= (2, 0):
            _chk_v2(probs, W.kid(pl, W.CURRENT_ATTRIBUTE), a.get("cur"), "current_attribute")
            _chk_v2(probs, W.kid(pl, W.NEW_ATTRIBUTE), a.get("new"), "new_attribute")
        else:
            n, x, i = a["attr"]
            node = W.kid(pl, W.ATTRIBUTE)
            if node is None:
                return probs + ["attribute missing from the request"]
            got = C.dec_attribute(node, v)
            gv = got[2].get("v") if (n == "Name" and isinstance(got[2], dict)) else got[2]
            if [got[0], got[1], gv] != [n, i, x]:
                probs.append("attribute sent as %r, given %r" % (got, [n, i, x]))
        return probs


@reg
class SetAttribute(_AttrModOp):
    name = "set_attribute"
    min_version = (2, 0)

    def args(self, v, api):
        return st.fixed_dictionaries({"uid": opt(uid_s), "new": V2_ATTR})

    def kwargs(self, a, v):
        return {"attribute_name": a["new"][0], "attribute_value": a["new"][1]}

    def build(self, a, v):
        from kmip.core import objects as cobj
        from kmip.core.messages import payloads
        return payloads.SetAttributeRequestPayload(
            unique_identifier=a["uid"], new_attribute=cobj.NewAttribute(attribute=_v2_value(*a["new"])))

    def check(self, a, pl, v, api):
        probs = []
        chk_val(probs, pl, W.UNIQUE_IDENTIFIER, a["uid"], "unique_identifier")
        _chk_v2(probs, W.kid(pl, W.NEW_ATTRIBUTE), a.get("new"), "attribute_name/attribute_value")
        return probs


# ----------------------------------------------------------------------------- query / discover
@reg
class Query(Op):
    name = "query"
    apis = ("proxy",)

    def args(self, v, api):
        return st.fixed_dictionaries({"functions": st.lists(st.integers(1, 6), min_size=1,
                                                            max_size=4, unique=True)})

    def call(self, api, c, a, v):
        E = _E()
        return c.proxy.query(query_functions=[E.QueryFunction(f) for f in a["functions"]])

    def check(self, a, pl, v, api):
        got = [c["value"] for c in W.kids(pl, W.QUERY_FUNCTION)]
        return [] if got == list(a["functions"]) else [
            "query_functions sent as %r, given %r" % (got, a["functions"])]

    def payload(self, v):
        ops = [1, 2, 3, 8, 0xA, 0xB, 0xC, 0x12, 0x13, 0x14, 0x18]
        return st.fixed_dictionaries({}, optional={
            "operations": st.lists(st.sampled_from(ops), min_size=1, max_size=5, unique=True),
            "object_types": st.lists(st.sampled_from([1, 2, 3, 4, 7, 8]), min_size=1, max_size=4,
                                     unique=True),
            "vendor": text_s})

    def enc(self, p, v):
        out = [T.encode_enum(W.OPERATION, o) for o in p.get("operations", [])]
        out += [T.encode_enum(W.OBJECT_TYPE, o) for o in p.get("object_types", [])]
        if "vendor" in p:
            out.append(T.encode_text(W.VENDOR_IDENTIFICATION, p["vendor"]))
        return out

    def dec(self, node, v):
        p = {}
        x = [c["value"] for c in W.kids(node, W.OPERATION)]
        if x:
            p["operations"] = x
        x = [c["value"] for c in W.kids(node, W.OBJECT_TYPE)]
        if x:
            p["object_types"] = x
        x = W.val(node, W.VENDOR_IDENTIFICATION)
        if x is not None:
            p["vendor"] = x
        return p

    def expect(self, api, p, v):
        return {"operations": p.get("operations", []), "object_types": p.get("object_types", []),
                "vendor": p.get("vendor")}

    def observe(self, api, r, v):
        return {"operations": plain(self.field(r, "operations")),
                "object_types": plain(self.field(r, "object_types")),
                "vendor": plain(self.field(r, "vendor_identification"))}


@reg
class DiscoverVersions(Op):
    name = "discover_versions"
    apis = ("proxy",)
    min_version = (1, 1)

    def args(self, v, api):
        return st.fixed_dictionaries({"versions": opt(st.lists(st.sampled_from(W.VERSIONS).map(list),
                                                               min_size=0, max_size=3))})

    def call(self, api, c, a, v):
        from kmip.core.messages import contents
        pv = None if a["versions"] is None else [contents.ProtocolVersion(x, y) for x, y in a["versions"]]
        return c.proxy.discover_versions(protocol_versions=pv)

    def check(self, a, pl, v, api):
        got = [[W.val(c, W.PROTOCOL_VERSION_MAJOR), W.val(c, W.PROTOCOL_VERSION_MINOR)]
               for c in W.kids(pl, W.PROTOCOL_VERSION)]
        want = [list(x) for x in (a["versions"] or [])]
        return [] if got == want else ["protocol_versions sent as %r, given %r" % (got, want)]

    def payload(self, v):
        return st.fixed_dictionaries({"versions": st.lists(st.sampled_from(W.VERSIONS).map(list),
                                                           min_size=0, max_size=6, unique_by=tuple)})

    def enc(self, p, v):
        return [W.enc_version(x) for x in p["versions"]]

    def dec(self, node, v):
        return {"versions": [[W.val(c, W.PROTOCOL_VERSION_MAJOR), W.val(c, W.PROTOCOL_VERSION_MINOR)]
                             for c in W.kids(node, W.PROTOCOL_VERSION)]}

    def expect(self, api, p, v):
        return {"versions": [list(x) for x in p["versions"]]}

    def observe(self, api, r, v):
        pv = self.field(r, "protocol_versions")
        if pv is None:
            return {"versions": []}
        return {"versions": [[x.major, x.minor] for x in pv]}
