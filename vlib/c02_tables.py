"""Literal tables for C02, written from the KMIP specification (1.0-2.0), NOT from kmip.core.enums.

Tag numbers: KMIP spec "Tags" table (section 9.1.3.1).  Item types: section 9.1.1.2.
Structure layouts: Key Block (2.1.3), Key Value (2.1.4), Attribute (2.1.1), Name (3.2),
Protocol Version (6.1), message formats (7.1: Request/Response Header, Batch Item).
Result Status (9.1.3.2.25) and Result Reason (9.1.3.2.26) enumerations.
"""

STRUCT, INT, LONG, BIG, ENUM, BOOL, TEXT, BYTES, DATE, IVL, DATEX = range(1, 12)
TYPE_NAMES = {1: "Structure", 2: "Integer", 3: "LongInteger", 4: "BigInteger", 5: "Enumeration",
              6: "Boolean", 7: "TextString", 8: "ByteString", 9: "DateTime", 10: "Interval",
              11: "DateTimeExtended"}

ANY = None      # "type varies" (Attribute Value; Key Value / Key Material may be wrapped bytes)

# tag -> (name, ordered list of (child tag, child name, allowed types or ANY, multiple?))
# Order is the order of the spec's structure tables (section 9.1: "in the order specified").
T_PROTOCOL_VERSION = 0x420069
T_REQUEST_HEADER = 0x420077
T_RESPONSE_HEADER = 0x42007A
T_BATCH_ITEM = 0x42000F
T_ATTRIBUTE = 0x420008
T_KEY_BLOCK = 0x420040
T_KEY_VALUE = 0x420045
T_NAME = 0x420053
T_REQUEST_MESSAGE = 0x420078
T_RESPONSE_MESSAGE = 0x42007B

LAYOUT = {
    T_PROTOCOL_VERSION: ("ProtocolVersion", [
        (0x42006A, "Protocol Version Major", (INT,), False),
        (0x42006B, "Protocol Version Minor", (INT,), False)]),
    T_REQUEST_HEADER: ("RequestHeader", [
        (0x420069, "Protocol Version", (STRUCT,), False),
        (0x420050, "Maximum Response Size", (INT,), False),
        (0x420105, "Client Correlation Value", (TEXT,), False),
        (0x420106, "Server Correlation Value", (TEXT,), False),
        (0x420007, "Asynchronous Indicator", (BOOL,), False),
        (0x4200D3, "Attestation Capable Indicator", (BOOL,), False),
        (0x4200C7, "Attestation Type", (ENUM,), True),
        (0x42000C, "Authentication", (STRUCT,), False),
        (0x42000E, "Batch Error Continuation Option", (ENUM,), False),
        (0x420010, "Batch Order Option", (BOOL,), False),
        (0x420092, "Time Stamp", (DATE,), False),
        (0x42000D, "Batch Count", (INT,), False)]),
    T_RESPONSE_HEADER: ("ResponseHeader", [
        (0x420069, "Protocol Version", (STRUCT,), False),
        (0x420092, "Time Stamp", (DATE,), False),
        (0x4200C8, "Nonce", (STRUCT,), False),
        (0x420155, "Server Hashed Password", (BYTES,), False),
        (0x4200C7, "Attestation Type", (ENUM,), True),
        (0x420105, "Client Correlation Value", (TEXT,), False),
        (0x420106, "Server Correlation Value", (TEXT,), False),
        (0x42000D, "Batch Count", (INT,), False)]),
    # request and response batch items share the tag; union of both layouts in spec order
    T_BATCH_ITEM: ("BatchItem", [
        (0x42005C, "Operation", (ENUM,), False),
        (0x420154, "Ephemeral", (BOOL,), False),
        (0x420093, "Unique Batch Item ID", (BYTES,), False),
        (0x42007F, "Result Status", (ENUM,), False),
        (0x42007E, "Result Reason", (ENUM,), False),
        (0x42007D, "Result Message", (TEXT,), False),
        (0x420006, "Asynchronous Correlation Value", (BYTES,), False),
        (0x420079, "Request Payload", (STRUCT,), False),
        (0x42007C, "Response Payload", (STRUCT,), False),
        (0x420051, "Message Extension", (STRUCT,), False)]),
    T_ATTRIBUTE: ("Attribute", [
        (0x42000A, "Attribute Name", (TEXT,), False),
        (0x420009, "Attribute Index", (INT,), False),
        (0x42000B, "Attribute Value", ANY, False)]),
    T_KEY_BLOCK: ("KeyBlock", [
        (0x420042, "Key Format Type", (ENUM,), False),
        (0x420041, "Key Compression Type", (ENUM,), False),
        (0x420045, "Key Value", (STRUCT, BYTES), False),
        (0x420028, "Cryptographic Algorithm", (ENUM,), False),
        (0x42002A, "Cryptographic Length", (INT,), False),
        (0x420046, "Key Wrapping Data", (STRUCT,), False)]),
    T_KEY_VALUE: ("KeyValue", [
        (0x420043, "Key Material", (BYTES, STRUCT), False),
        (0x420008, "Attribute", (STRUCT,), True)]),
    T_NAME: ("Name", [
        (0x420055, "Name Value", (TEXT,), False),
        (0x420054, "Name Type", (ENUM,), False)]),
}

# codec-table class -> (structure tag, {constructor field -> child tag})
FIELD_TAGS = {
    "ProtocolVersion": (T_PROTOCOL_VERSION, {"major": 0x42006A, "minor": 0x42006B}),
    "RequestHeader": (T_REQUEST_HEADER, {
        "protocol_version": 0x420069, "maximum_response_size": 0x420050,
        "asynchronous_indicator": 0x420007, "authentication": 0x42000C,
        "batch_error_cont_option": 0x42000E, "batch_order_option": 0x420010,
        "time_stamp": 0x420092, "batch_count": 0x42000D}),
    "ResponseHeader": (T_RESPONSE_HEADER, {
        "protocol_version": 0x420069, "time_stamp": 0x420092, "batch_count": 0x42000D,
        "server_hashed_password": 0x420155}),
    "RequestBatchItem": (T_BATCH_ITEM, {
        "operation": 0x42005C, "unique_batch_item_id": 0x420093, "request_payload": 0x420079,
        "ephemeral": 0x420154}),
    "ResponseBatchItem": (T_BATCH_ITEM, {
        "operation": 0x42005C, "unique_batch_item_id": 0x420093, "result_status": 0x42007F,
        "result_reason": 0x42007E, "result_message": 0x42007D,
        "async_correlation_value": 0x420006, "response_payload": 0x42007C}),
    "Attribute": (T_ATTRIBUTE, {
        "attribute_name": 0x42000A, "attribute_index": 0x420009, "attribute_value": 0x42000B}),
    "KeyBlock": (T_KEY_BLOCK, {
        "key_format_type": 0x420042, "key_compression_type": 0x420041, "key_value": 0x420045,
        "cryptographic_algorithm": 0x420028, "cryptographic_length": 0x42002A,
        "key_wrapping_data": 0x420046}),
    "KeyValue": (T_KEY_VALUE, {"key_material": 0x420043, "attributes": 0x420008}),
    "Name": (T_NAME, {"name_value": 0x420055, "name_type": 0x420054}),
}

# Result Status enumeration
STATUS_SUCCESS, STATUS_FAILED, STATUS_PENDING, STATUS_UNDONE = 0, 1, 2, 3
STATUSES = {0, 1, 2, 3}

# Result Reason enumeration (KMIP 1.0-1.4; 2.0 adds 0x19.. which this server never uses)
REASON = {
    0x01: "Item Not Found", 0x02: "Response Too Large", 0x03: "Authentication Not Successful",
    0x04: "Invalid Message", 0x05: "Operation Not Supported", 0x06: "Missing Data",
    0x07: "Invalid Field", 0x08: "Feature Not Supported",
    0x09: "Operation Canceled By Requester", 0x0A: "Cryptographic Failure",
    0x0B: "Illegal Operation", 0x0C: "Permission Denied", 0x0D: "Object archived",
    0x0E: "Index Out of Bounds", 0x0F: "Application Namespace Not Supported",
    0x10: "Key Format Type Not Supported", 0x11: "Key Compression Type Not Supported",
    0x12: "Encoding Option Error", 0x13: "Key Value Not Present", 0x14: "Attestation Required",
    0x15: "Attestation Failed", 0x16: "Sensitive", 0x17: "Not Extractable",
    0x18: "Object Already Exists", 0x100: "General Failure",
}
# KMIP 2.0 additions (accepted as members of the enumeration, never required)
for _i in range(0x19, 0x4C):
    REASON.setdefault(_i, "reason-%02x" % _i)
R_RESPONSE_TOO_LARGE = 0x02
R_AUTH_NOT_SUCCESSFUL = 0x03
R_INVALID_MESSAGE = 0x04
R_OPERATION_NOT_SUPPORTED = 0x05
R_GENERAL_FAILURE = 0x100

# protocol versions the server documents as supported (docs/source/server.rst, DiscoverVersions)
SUPPORTED_VERSIONS = [(1, 0), (1, 1), (1, 2), (1, 3), (1, 4), (2, 0)]
