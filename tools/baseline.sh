#!/bin/bash
# Runs the repository's pinned test suite (guard off) and compares with BASELINE.json stable_pass.
OUT=${1:-/tmp/baseline.junit.xml}
cd /repo && env -u PYKMIP_VERIF /venv/bin/python -m pytest -ra -q -p no:cacheprovider --timeout=900 \
  --continue-on-collection-errors --junitxml=$OUT >/tmp/baseline.log 2>&1
/venv/bin/python - "$OUT" <<'P'
import json,sys,xml.etree.ElementTree as ET
base=json.load(open('/root/.vp/BASELINE.json'))
want=set(base['stable_pass'])
got=set()
for tc in ET.parse(sys.argv[1]).getroot().iter('testcase'):
    ok = not any(c.tag in ('failure','error','skipped') for c in tc)
    if ok: got.add('%s::%s'%(tc.get('classname'),tc.get('name')))
missing=sorted(want-got)
print('baseline: stable_pass=%d passed_now=%d missing=%d'%(len(want),len(got),len(missing)))
for m in missing[:20]: print('  MISSING',m)
sys.exit(1 if missing else 0)
P
