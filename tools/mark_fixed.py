#!/venv/bin/python
"""mark_fixed.py <pid> <bucket-substring> <commit> : turn a known entry into a fixed (regression) entry"""
import json, os, sys
HOME = os.path.dirname(os.path.dirname(os.path.abspath(__file__)))
pid, sub, commit = sys.argv[1:4]
kf = os.path.join(HOME, "known_findings.json")
d = json.load(open(kf))
n = 0
for e in d["findings"]:
    if e["property"] == pid and e.get("status", "known") == "known" and sub in e.get("bucket", ""):
        e["status"] = "fixed"; e["commit"] = commit
        e["line"] = "fixed: property=%s %s %s" % (pid, commit, e["what"])
        e["was_bucket"] = e.pop("bucket")
        e.pop("proposed_repair", None)
        n += 1
json.dump(d, open(kf, "w"), indent=1)
print("marked", n)
