#!/venv/bin/python
"""repofix.py <spec.py>: spec defines FILE, EDITS=[(old,new),...], TESTS=[paths], MSG. Applies the edits to /repo,
runs the listed unit tests, commits on success (fix: commit), reverts on failure."""
import subprocess, sys, os
ns = {}
exec(open(sys.argv[1]).read(), ns)
os.chdir("/repo")
files = set()
for f, old, new in ns["EDITS"]:
    s = open(f).read()
    assert s.count(old) == 1, (f, s.count(old), old[:80])
    open(f, "w").write(s.replace(old, new))
    files.add(f)
r = subprocess.run(["/venv/bin/python", "-m", "pytest", "-q", "-p", "no:cacheprovider"] + ns["TESTS"], capture_output=True, text=True)
print([l for l in r.stdout.splitlines() if " passed" in l or " failed" in l][-1:])
fl = subprocess.run(["/venv/bin/python", "-m", "flake8"] + sorted(files), capture_output=True, text=True).stdout
if fl.strip():
    print("flake8:", fl[:500])
if r.returncode != 0:
    print(r.stdout[-2500:])
    subprocess.run(["git", "checkout", "--"] + sorted(files))
    sys.exit(1)
assert ns["MSG"].startswith("fix:")
subprocess.run(["git", "commit", "-qam", ns["MSG"]])
print(subprocess.run(["git", "log", "--oneline", "-1"], capture_output=True, text=True).stdout)
