#!/venv/bin/python
"""Regenerates /verif/MANIFEST.json from the registry below (run after adding a check)."""
import json
import os

HOME = os.path.dirname(os.path.dirname(os.path.abspath(__file__)))

# pid -> (category, technique, level text, level note, design ref)
REG = {}


def reg(pid, technique, text, note, category="exploration"):
    REG[pid] = (category, technique, text, note, "DESIGN.md section 2, %s" % pid)


# entries are appended here as checks are completed ------------------------------------------
REGISTRY_FILE = os.path.join(HOME, "tools", "registry.json")
if os.path.exists(REGISTRY_FILE):
    for e in json.load(open(REGISTRY_FILE)):
        reg(e["pid"], e["technique"], e["text"], e["note"], e.get("category", "exploration"))

ALL = ["C%02d" % i for i in range(1, 21)]

checks = []
for pid in ALL:
    if pid not in REG:
        continue
    if not os.path.exists(os.path.join(HOME, "vlib", "props", pid.lower() + ".py")):
        continue
    cat, tech, text, note, ref = REG[pid]
    checks.append({
        "property_id": pid,
        "quick_cmd": "./check %s --tier quick" % pid,
        "thorough_cmd": "./check %s --tier thorough" % pid,
        "evidence_file": "evidence/%s.json" % pid,
        "replay_cmd_template": "./check %s --replay {path}" % pid,
        "engine": "vlib",
        "level_claimed": {"category": cat, "text": text, "design_ref": ref},
        "level_note": note,
        "technique": tech,
    })

na = []
NA_FILE = os.path.join(HOME, "tools", "not_applicable.json")
na_reasons = json.load(open(NA_FILE)) if os.path.exists(NA_FILE) else {}
for pid in ALL:
    if pid not in [c["property_id"] for c in checks]:
        na.append({"property_id": pid,
                   "reason": na_reasons.get(pid, "not claimed: the generated-input check for this "
                                            "property is not yet built/validated in this tree")})

man = {
    "version": 1,
    "setup_cmd": "./setup.sh",
    "hooks": {
        "guard": "PYKMIP_VERIF",
        "enable": "no source hooks: all instrumentation is installed by the harness at run time "
                  "(logging handlers, SQLAlchemy events, clock shim, lock replacement); the "
                  "checks import kmip from /repo's working tree via PYTHONPATH",
        "baseline_off_cmd": "cd /repo && /venv/bin/python -m pytest -ra -q -p no:cacheprovider "
                            "--timeout=900 --continue-on-collection-errors",
        "source_commits": [],
        "add_only": True,
    },
    "engines": [{
        "name": "vlib",
        "path": "vlib/",
        "serves_properties": [c["property_id"] for c in checks],
        "kind_free_text": "property-based testing / fuzzing framework: Hypothesis strategies, "
                          "bounded exhaustive enumeration, atheris; JSON specs, collect-then-bucket "
                          "findings, independent oracles (ttlvref, reference models), in-process "
                          "PyKMIP server harness",
    }],
    "checks": checks,
    "not_applicable": na,
    "notes": "All checks: ./check <id> --tier quick|thorough ; VERIF_SEED honoured; exit 0/1/2 = "
             "held / VIOLATION / harness error. Known findings: known_findings.json.",
}
with open(os.path.join(HOME, "MANIFEST.json"), "w") as f:
    json.dump(man, f, indent=1)
print("MANIFEST: %d checks, %d not claimed" % (len(checks), len(na)))
