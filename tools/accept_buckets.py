#!/venv/bin/python
"""Turn the buckets of the last run of a check into known_findings entries (development aid;
each accepted bucket must have been confirmed by hand as a genuine defect first).
usage: accept_buckets.py C13 [substring-filter]   -- reads replays/<pid>-*.json written by the run"""
import glob, json, os, re, sys, hashlib
HOME = os.path.dirname(os.path.dirname(os.path.abspath(__file__)))
pid = sys.argv[1]
flt = sys.argv[2] if len(sys.argv) > 2 else ""
kf = os.path.join(HOME, "known_findings.json")
data = json.load(open(kf))
have = {(e["property"], e.get("bucket")) for e in data["findings"]}
os.makedirs(os.path.join(HOME, "known"), exist_ok=True)
n = 0
for path in sorted(glob.glob(os.path.join(HOME, "replays", pid + "-*.json"))):
    r = json.load(open(path))
    if flt and flt not in r["bucket"]:
        continue
    if (pid, r["bucket"]) in have:
        continue
    rel = os.path.join("known", os.path.basename(path))
    json.dump(r, open(os.path.join(HOME, rel), "w"), indent=1, sort_keys=True)
    data["findings"].append({"property": pid, "status": "known", "bucket": r["bucket"],
                             "replay": rel, "what": "General Failure / internal error: %s (example case label: %s)" % (" | ".join(r["bucket"].split("|")[2:]), (r.get("spec") or {}).get("label", "?"))})
    n += 1
json.dump(data, open(kf, "w"), indent=1)
print("accepted", n)
