#!/bin/bash
# tools/selftest.sh <PID> <patch.diff> [extra check args]  -> prints CAUGHT / MISSED
PID=$1; PATCH=$(readlink -f $2); shift 2
D=/tmp/pykmip-mut-$PID-$$
rm -rf $D; mkdir -p $D
rsync -a --exclude .git --exclude '*.pyc' --exclude __pycache__ /repo/ $D/
( cd $D && patch -p1 -s < $PATCH ) || { echo "PATCH-FAILED $PATCH"; rm -rf $D; exit 3; }
OUT=$(cd /verif && VERIF_REPO=$D VERIF_JOBS=${VERIF_JOBS:-8} ./check $PID --tier quick --no-shrink "$@" 2>&1)
RC=$?
rm -rf $D
if [ $RC -eq 1 ]; then echo "CAUGHT $(basename $PATCH): $(echo "$OUT" | grep -m2 '^bucket:' | cut -c1-160 | tr '\n' ';')"; 
elif [ $RC -eq 0 ]; then echo "MISSED $(basename $PATCH)"; else echo "HARNESS-ERROR($RC) $(basename $PATCH): $(echo "$OUT" | tail -3 | tr '\n' ' ')"; fi
