#!/bin/bash
# tools/confirm_seed.sh <seed-dir> [check ids...]: confirm an independently produced breaking change and run checks on it.
# Prints one JSON line with the outcome.
S=$(readlink -f $1); shift
NAME=$(basename $S)
PID=$(python3 -c "import json;print(json.load(open('$S/meta.json'))['property'])")
CHECKS="${@:-$PID}"
W=/tmp/seedchk-$NAME
git -C /repo worktree remove --force $W >/dev/null 2>&1; rm -rf $W
git -C /repo worktree add -q $W HEAD || exit 3
( cd $W && PYTHONPATH=$W timeout 600 /venv/bin/python $S/demo.py >/tmp/$NAME.demo_clean.out 2>&1 ); DC=$?
( cd $W && git apply $S/patch.diff ) || { echo "{\"seed\":\"$NAME\",\"error\":\"patch does not apply\"}"; git -C /repo worktree remove --force $W; exit 3; }
( cd $W && PYTHONPATH=$W timeout 600 /venv/bin/python $S/demo.py >/tmp/$NAME.demo_patched.out 2>&1 ); DP=$?
( cd $W && env -u PYKMIP_VERIF /venv/bin/python -m pytest -q -p no:cacheprovider --timeout=900 --continue-on-collection-errors --junitxml=/tmp/$NAME.junit.xml >/tmp/$NAME.suite.log 2>&1 )
MISSING=$(/venv/bin/python - /tmp/$NAME.junit.xml <<'P'
import json,sys,xml.etree.ElementTree as ET
want=set(json.load(open('/root/.vp/BASELINE.json'))['stable_pass']); got=set()
for tc in ET.parse(sys.argv[1]).getroot().iter('testcase'):
    if not any(c.tag in ('failure','error','skipped') for c in tc): got.add('%s::%s'%(tc.get('classname'),tc.get('name')))
print(len(want-got))
P
)
RES=""
for C in $CHECKS; do
  OUT=$(cd /verif && VERIF_REPO=$W VERIF_JOBS=${VERIF_JOBS:-8} ./check $C --tier quick --no-shrink 2>&1); RC=$?
  B=$(echo "$OUT" | grep -m3 '^bucket:' | cut -c9-170 | tr '\n' ';' | sed 's/"/\\"/g')
  RES="$RES\"$C\":{\"exit\":$RC,\"buckets\":\"$B\"},"
done
git -C /repo worktree remove --force $W; rm -f /tmp/$NAME.junit.xml
echo "{\"seed\":\"$NAME\",\"property\":\"$PID\",\"demo_clean_exit\":$DC,\"demo_patched_exit\":$DP,\"stable_tests_missing\":$MISSING,\"checks\":{${RES%,}}}"
