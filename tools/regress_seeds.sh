#!/bin/bash
# tools/regress_seeds.sh <out.jsonl> <seed names...>: re-run, for each installed seeded change, the checks recorded
# as catching it (checks only: the demonstration and the repository suite were run when the change was confirmed).
# One JSON line per seed ("regress": true) for tools/update_seed_meta.py.
OUT=$1; shift
cd "$(dirname "$0")/.."
for S in "$@"; do
  D=seeded/$S
  [ -f $D/meta.json ] || continue
  CHECKS=$(python3 -c "import json;print(' '.join(json.load(open('$D/meta.json')).get('caught_by', [])))")
  [ -n "$CHECKS" ] || continue
  W=/tmp/seedreg-$S
  git -C /repo worktree remove --force $W >/dev/null 2>&1; rm -rf $W
  git -C /repo worktree add -q $W HEAD || continue
  ( cd $W && git apply $OLDPWD/$D/patch.diff ) || { echo "{\"seed\":\"$S\",\"error\":\"patch does not apply\"}" >> $OUT; git -C /repo worktree remove --force $W; continue; }
  RES=""
  for C in $CHECKS; do
    O=$(VERIF_REPO=$W VERIF_JOBS=${VERIF_JOBS:-8} ./check $C --tier quick --no-shrink 2>&1); RC=$?
    B=$(echo "$O" | grep -m3 '^bucket:' | cut -c9-170 | tr '\n' ';' | sed 's/"/\\"/g')
    RES="$RES\"$C\":{\"exit\":$RC,\"buckets\":\"$B\"},"
  done
  git -C /repo worktree remove --force $W
  echo "{\"seed\":\"$S\",\"regress\":true,\"checks\":{${RES%,}}}" >> $OUT
done
