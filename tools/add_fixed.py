#!/venv/bin/python
"""add_fixed.py <pid> <commit> <name> '<what>' '<spec json>' : record a repaired defect (regression replay)."""
import json, os, sys
HOME = os.path.dirname(os.path.dirname(os.path.abspath(__file__)))
pid, commit, name, what, spec = sys.argv[1:6]
rel = "known/%s-fixed-%s.json" % (pid, name)
json.dump({"property": pid, "bucket": "fixed", "spec": json.loads(spec)}, open(os.path.join(HOME, rel), "w"), indent=1, sort_keys=True)
kf = os.path.join(HOME, "known_findings.json")
d = json.load(open(kf))
d["findings"] = [e for e in d["findings"] if e.get("replay") != rel]
d["findings"].append({"property": pid, "status": "fixed", "commit": commit, "replay": rel, "what": what,
                      "line": "fixed: property=%s %s %s" % (pid, commit, what)})
json.dump(d, open(kf, "w"), indent=1)
print("recorded", rel)
