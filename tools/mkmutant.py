#!/venv/bin/python
"""mkmutant.py <out.diff> <repo-relative path> <old> <new> [<path2> <old2> <new2> ...]
Writes a unified diff (relative to the repo root, apply with patch -p1) replacing old by new (exactly one occurrence)."""
import difflib, sys, os
out = sys.argv[1]
args = sys.argv[2:]
chunks = []
for i in range(0, len(args), 3):
    path, old, new = args[i:i + 3]
    old = old.encode().decode("unicode_escape"); new = new.encode().decode("unicode_escape")
    s = open(os.path.join(os.environ.get("VERIF_REPO", "/repo"), path)).read()
    assert s.count(old) == 1, "%s: %d occurrences of %r" % (path, s.count(old), old)
    t = s.replace(old, new)
    chunks.append("".join(difflib.unified_diff(s.splitlines(True), t.splitlines(True), "a/" + path, "b/" + path)))
os.makedirs(os.path.dirname(out), exist_ok=True)
open(out, "w").write("".join(chunks))
print("wrote", out)
