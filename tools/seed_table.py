#!/venv/bin/python
"""Prints the markdown table 'which checks catch which independently seeded changes' from seeded/*/meta.json"""
import glob, json, os
HOME = os.path.dirname(os.path.dirname(os.path.abspath(__file__)))
print("| seeded change | property | what it does (abridged) | needs | caught by | note |")
print("|---|---|---|---|---|---|")
for p in sorted(glob.glob(os.path.join(HOME, "seeded", "*", "meta.json"))):
    m = json.load(open(p))
    name = os.path.basename(os.path.dirname(p))
    cut = lambda s, n: (s or "").replace("|", "/").replace("\n", " ")[:n]
    print("| %s | %s | %s | %s | %s | %s |" % (name, m.get("property"), cut(m.get("summary"), 160), cut(m.get("needs"), 140),
                                             ", ".join(m.get("caught_by", [])) or "**missed**", cut(m.get("history", ""), 200)))
