#!/bin/bash
# tools/run_all.sh [quick|thorough] [ids...] : run every registered check on /repo, summarise
TIER=${1:-quick}; shift
cd "$(dirname "$0")/.."
IDS=${@:-$(python3 -c "import json;print(' '.join(c['property_id'] for c in json.load(open('MANIFEST.json'))['checks']))")}
for P in $IDS; do
  S=$(date +%s); OUT=$(./check $P --tier $TIER 2>&1); RC=$?; E=$(( $(date +%s) - S ))
  echo "$P rc=$RC ${E}s $(echo "$OUT" | grep -c '^KNOWN-FINDING') known, $(echo "$OUT" | grep -c '^VIOLATION') violations :: $(echo "$OUT" | tail -1 | cut -c1-150)"
done
