#!/venv/bin/python
"""install_seeds.py <confirm-log>... : copy confirmed seeded changes from /tmp/seed-out into /verif/seeded/<name>/
(patch.diff, demo.py, meta.json) and record what was run and which checks caught them."""
import json, os, shutil, sys
HOME = os.path.dirname(os.path.dirname(os.path.abspath(__file__)))
NOTES = {
 "C03-1a": "first run of C03 missed it (every (policy, type) pair in the store had a single owner); C03 gained a Locate store with mixed owners per pair and smaller per-history type/policy pools",
 "C03-1b": "a concurrency change: invisible to C03's sequential histories by nature, caught by C10 (schedules)",
 "C07-1b": "first run of C07 missed it (Destroy was only sent as a single-item request); C07 gained destroy-in-batch steps (followed by a failing or succeeding item)",
 "C10-1b": "first run of C10 missed it (per-yield-point coin flips rarely switch exactly at lock hand-over); C10 gained schedules with a switch probability per KIND of yield point",
 "C19-1b": "first run of C19 missed it (one protocol version per client object); the real-engine part now changes client.kmip_version between calls",
 "C05-1a": "first run of C05 missed it (the object under test was never read between store and read-back); C05 gained read-only interference steps incl. wrapped Get batched with a committing item",
 "C12-1a": "first run of C12 classified it into an existing coarse known-finding bucket; the lenient-acceptance buckets now name the message-level shape / the operation",
 "C16-1b": "first run of C16 missed it (the library's own writer refuses to emit the field below 2.0); C16 now grafts the field into encoded requests",
 "C17-2a": "first run of C17 missed it (every CN sat in an RDN of its own); C17 gained certificate layouts: several CNs in one multi-valued RDN, CN next to an OU, CN before O, issuer with its own CN",
 "C17-2b": "first run of C17 missed it (one request per session); C17 gained part C: several requests on one session while the scripted SLUGS services change their answers between requests (exhaustive 2-3 step product + random sessions)",
 "C18-2a": "first run of C18 missed it (needs a 7-event chain over two files; exhaustive depth was 5, random sequences too diffuse); C18 gained level-by-level exploration with situation pruning to depth 8 (quick) / 11 (thorough)",
 "C19-2b": "first run of C19 missed it (one call per client object in the scripted part); C19 gained call sequences on one client object with a check that earlier results still read the same",
 "C20-2b": "first run of C20 missed it (clients were built with explicit arguments and an empty configuration file); C20 gained clients configured from generated configuration files with canary passwords next to INI metacharacters",
 "C13-2b": "first run ended in a harness error (the fixture store could not be built: destroy-then-register is part of the build); C13 now records the complete build history and judges it as a case",
 "C04-2b": "first run of C04 missed it (one operation per request; C08 caught it); C04 histories gained batches with a set-of-possible-states model",
 "C06-2b": "first run of C06 missed it (one wrapped Get per request; C05 caught it); C06 wrapping cases gained batch shapes (wrapped Get twice / followed by a committing item and a plain Get)",
 "C08-2a": "first run of C08 missed it (no failing CreateKeyPair whose private template is refused when applied; C09 caught it); the C08 pool gained poisoned creators for every template position",
 "C09-2b": "first run of C09 missed it (crash points at SQL-statement granularity cannot fall inside SQLite's commit); C09 gained SIGKILL at every write-class system call on the database files via strace",
 "C11-2b": "first run of C11 missed it (engine-level differential has no session; C12 caught it); C11 gained session pairs over one KmipSession",
 "C02-3b": "first run: C02 is sequential by nature; C10 ended in a harness error (an unencodable pool item, since repaired) and after that missed it (no yield point while a response is encoded outside the engine lock); C10 now traces core/messages/messages.py and auth/*",
 "C03-3a": "caught by C03; C15 missed it (attribute operations were only issued by the owner or refused strangers): C15 gained objects under an all-permissive policy and successful requests by non-owners",
 "C03-3b": "a policy-file parsing change: C03 takes policies as ready-made tables by design, the parser is C18's (caught)",
 "C04-3a": "a commit-failure fault, not a lifecycle path: caught by C09's commit-fault injection",
 "C05-3a": "first run of C05 missed it (no history before the object under test exists; C07 caught the identifier reuse): C05 gained a 'before' history ending with a rich object that is destroyed again",
 "C07-3a": "first run of C07 missed it (the destroyed identifier was never named again inside the same batch; C08 caught it): C07 gained then-probe / read-then-probe batches",
 "C07-3b": "first run of C07 missed it (needs a COMMIT that keeps failing; C09's one-shot commit fault does not defeat a retry): C09 gained persistent commit failures",
 "C08-3b": "first run of C08 missed it (no Locate between a creator and an identifier-less item): C08 gained the creator / other-object items / placeholder pattern and Locates of old objects in the pool",
 "C09-3a": "needs a death during the first start on a new database file: C09 gained start-up crash points (this part was added while the confirmation was running; the previous version had none)",
 "C10-3b": "needs an authentication plug-in and a switch during its HTTP round trip: C10 gained SLUGS workloads with a settings list shared by all sessions (added while the confirmation was running)",
 "C11-3a": "first run of C11 missed it (prefix requests never carried a DiscoverVersions client list): C11 gained DiscoverVersions lists and header options in prefixes",
 "C11-3b": "first run of C11 missed it (prefix requests never carried an Asynchronous Indicator): C11 gained header options in prefixes",
 "C13-3a": "first run of C13 missed it (every identifier was spelled canonically): C13 gained alias spellings around a Destroy, C07 reads under an alias before the Destroy",
 "C14-3a": "first run of C14 missed it (one Locate per request): C14 gained [Locate, Register, Locate] batches",
 "C16-3a": "first run of C16 missed it (one request per connection; C11 and C12 caught it): C16 gained part g, version changes on one connection",
 "C17-3b": "needs connections that report a descriptor number: the scripted connection gained fileno() (a reused number) while the confirmation was running; before that the change was invisible",
 "C18-3a": "first run of C18 missed it (two files changing between two scans only in the random part): C18 gained exploration with composite letters",
 "C19-3b": "needs the documented with-block: C19 gained calls inside `with client:` (added while the confirmation was running)",
 "C20-3a": "first run of C20 missed it (a generated key that is never stored was unknown to the scanner; C13 caught the General Failure): C20 gained a pass-through spy on key generation and a creator x attribute grid under 1.4/2.0",
 "C11-2a": "a concurrency change: invisible to C11's sequential differential by nature, caught by C10 (schedules)",
 "C13-2a": "a concurrency change: invisible to C13's sequential grid by nature, caught by C10 (schedules)",
 "C16-2b": "a concurrency change: invisible to C16's sequential tables by nature, caught by C10 (schedules)",
 "C13-1b": "first run ended in a harness error (the fixture store could not be built); C13 now judges the fixture-building requests themselves",
 "C01-5b": "first run of C01 missed it (text leaves were ASCII because TextString could not encode anything else; that defect is repaired): every text leaf now carries non-ASCII and non-normalised text one time in four",
 "C02-5a": "first run of C02 ended in a harness error (the malformed replacement answers left a response path unclassified and the path-coverage guard fired first): genuine buckets are now reported before that guard",
 "C03-5b": "first run of C03 missed it (policies were fixed for the length of a history): histories gained steps that replace or remove a user policy in the shared policy store",
 "C04-5b": "first run of C04 missed it (key pairs carried masks only in the private/public templates): key pairs gained a mask in the common template, overridden or inherited",
 "C05-5b": "first run of C05 missed it (mask lists of the pie path were built from an integer: unique flags in enumeration order): lists now also come reversed and with repeated flags",
 "C06-5b": "first run of C06 missed it (an IV was always supplied where the mode wants one, and a derivation was made once): DeriveKey by encryption without IV, and every derivation made twice",
 "C07-5a": "first run of C07 missed it (objects were destroyed in the state they were created in): destroy steps gained a life before (activate/cease, compromise)",
 "C07-5b": "first run of C07 missed it (every Destroy came from the owner): shared objects under an all-permissive policy, destroyed by somebody else",
 "C08-5a": "first run of C08 missed it (engine-level requests, no connection; C11, C12 and C02 caught it): one batch in three also travels over a real connection behind a request with its own Maximum Response Size",
 "C10-5b": "first run of C10 missed it (the harness built the sessions itself, around ONE engine): sessions are now made by KmipServer._setup_connection_handler of a bare server object and whatever engine they got is scheduled",
 "C11-5a": "first run of C11 missed it (no request above a few kilobytes; irregular connections were left to C12, which caught it): a megabyte request in front of the probe, and irregular connections of well-formed requests are judged",
 "C11-5b": "first run of C11 missed it (Time Stamps were absent, stale or far in the future): acceptable Time Stamps from skewed clocks in prefix and probe",
 "C12-5a": "first run of C12 missed it (batch item IDs of one byte; C02 and C01 caught it): IDs of 5, 8, 16 and 24 bytes",
 "C14-5a": "first run of C14 missed it (attribute values never changed after registration): ModifyAttribute of one Object Group / Application Specific Information instance between Locates",
 "C14-5b": "first run of C14 missed it (stores of at most a dozen objects): stores of several hundred objects with pages and walks beyond position 500",
 "C15-5b": "first run of C15 missed it (ASCII pools): pools carry canonically equivalent Unicode spellings",
 "C16-5b": "first run of C16 missed it (the library's writers drop the later fields, so the case never carried them; the ciphertext was invalid anyway): requests written with a later version's rules, each later field alone, valid GCM tag",
 "C17-5b": "first run of C17 missed it (distinct common names only): the same common name several times",
 "C19-5a": "first run of C19 missed it (Check constraints drawn from large ranges, mask from 1): zero is drawn explicitly - which also uncovered the rekey date defect (repo 1a7f9cc)",
 "C20-5a": "first run of C20 missed it (no identifier-less item behind a Locate that singles out one object): batch grid gained placeholder items behind Locate/Get/Register",
 "C03-6a": "first run of C03 ended in a harness error while the check was being edited; the version before had no Locate with filters by a requester without access, so the change was invisible to it: C03 gained the non-interference part (two stores that differ only in objects the requester may not touch)",
 "C05-6a": "a concurrency change (lock narrowed to the batch): invisible to C05's sequential round trips by nature, caught by C10 (schedules)",
 "C08-6a": "a concurrency change (lock moved from process_request to _process_batch): invisible to C08's sequential batches by nature, caught by C10 (schedules)",
 "C11-6a": "caught by the first run with two cases only: C11 gained probes that are preceded by themselves and cases in which everybody speaks the probe's version",
 "C12-6a": "first run of C12 missed it (the final request always had an encodable answer): the final request may now be one whose result the codec refuses to write",
 "C18-6a": "first run of C18 (tools/selftest.sh before the confirmation batch) missed it: no event put a removed file back with the time stamp it had; C18 gained that letter, an alphabet for it and the random op",
 "C20-6a": "the version of C20 before this round had no text longer than 50 characters and no requester name longer than 50 (not run against the change; the gap was closed before the confirmation batch ran): creating requests with long texts, a requester with a 59-character name",
 "C13-6a": "caught by the first run (2**31 was in the prime menu); the menu gained primes around every byte boundary",
 "C19-7a": "first run of C19 (tools/selftest.sh) missed it (scripted responses carried no optional header field): one response in four now carries Server Correlation Value (1.4+) / Server Hashed Password (2.0)",
 "C20-7a": "first run of C20 (tools/selftest.sh) missed it (DeriveKey always had one base object or explicit data): grid of DeriveKey from two or three canary objects in every order",
 "C11-7a": "first run of C11 missed it (no authentication service behind C11's sessions; C17 caught it): session cases with a scripted SLUGS service that changes the groups between messages",
 "C12-7a": "needs a second connection: invisible to C12's single connection by nature; C10 reached the blocked state but ended in a harness error (IndexError in the serial-order search), now reported as 'requests never answered'",
 "C07-7a": "a concurrency change (informational requests served without the lock): invisible to C07's sequential histories by nature, caught by C10 (schedules)",
 "C05-7a": "caught by the first run with a single case: all-zero / all-False wrapping parameters were promoted from a rarely drawn probe class into the bulk",
 "C01-8a": "first run of C01 (tools/selftest.sh) missed it (values were encoded once and never changed afterwards): new oracle - encode, change a nested field through its setter, encode again, compare with a value built that way",
 "C02-8a": "first run of C02 (tools/selftest.sh) missed it (identifiers of a few characters): requests with identifiers of 1000-5000 characters",
 "C08-8a": "first run of C08 (tools/selftest.sh) missed it (Revoke never carried a Compromise Occurrence Date): Revoke items with that date at the edges of its range",
 "C13-8a": "first run of C13 (tools/selftest.sh) missed it (stored private keys were plain RSA): grid block of keys with unusual stored material read back with every Key Format Type",
 "C16-8a": "first run of C16 (tools/selftest.sh) missed it (the echo part sent no Maximum Response Size): part a gained requests with a Maximum Response Size of 0, 1 and 64 under every version",
}
rows = {}
for log in sys.argv[1:]:
    for line in open(log):
        line = line.strip()
        if not line.startswith("{"):
            continue
        r = json.loads(line)
        rows.setdefault(r["seed"], {}).update({k: v for k, v in r.items() if k != "checks"})
        rows[r["seed"]].setdefault("checks", {}).update(r.get("checks", {}))
for name, r in sorted(rows.items()):
    src = os.path.join("/tmp/seed-out", name)
    if not os.path.isdir(src):
        continue
    ok = r.get("demo_clean_exit") == 0 and r.get("demo_patched_exit") not in (0, None) and r.get("stable_tests_missing") == 0
    dst = os.path.join(HOME, "seeded", name)
    if not ok:
        print("NOT CONFIRMED", name, r)
        continue
    os.makedirs(dst, exist_ok=True)
    for f in ("patch.diff", "demo.py"):
        shutil.copyfile(os.path.join(src, f), os.path.join(dst, f))
    meta = json.load(open(os.path.join(src, "meta.json")))
    meta["confirmed_by_verifier"] = {
        "demo_on_unchanged_tree_exit": r["demo_clean_exit"], "demo_with_patch_exit": r["demo_patched_exit"],
        "stable_baseline_tests_missing_with_patch": r["stable_tests_missing"],
        "how": "tools/confirm_seed.sh: scratch git worktree of /repo HEAD under /tmp, demo run clean, patch applied with git apply, demo run again, full repository suite compared with BASELINE.json stable_pass, checks run with VERIF_REPO pointing at the patched worktree, worktree removed"}
    meta["checks_run"] = {c: {"caught": v["exit"] == 1, "exit": v["exit"], "buckets": v.get("buckets", "")} for c, v in r["checks"].items()}
    meta["caught_by"] = sorted(c for c, v in r["checks"].items() if v["exit"] == 1)
    if name in NOTES:
        meta["history"] = NOTES[name]
    json.dump(meta, open(os.path.join(dst, "meta.json"), "w"), indent=1)
    print("%-8s caught_by=%s" % (name, meta["caught_by"]))
