#!/venv/bin/python
import glob, json, os, sys
HOME = os.path.dirname(os.path.dirname(os.path.abspath(__file__)))
kf = os.path.join(HOME, "known_findings.json")
d = json.load(open(kf))
have = {(e["property"], e.get("bucket")) for e in d["findings"]}
n = 0
for p in sorted(glob.glob(os.path.join(HOME, "known", "*.proposed.json"))):
    if len(sys.argv) > 1 and sys.argv[1] not in p:
        continue
    for e in json.load(open(p))["findings"]:
        if (e["property"], e.get("bucket")) in have:
            continue
        assert os.path.exists(os.path.join(HOME, e["replay"])), e["replay"]
        d["findings"].append(e); n += 1
json.dump(d, open(kf, "w"), indent=1)
print("merged", n)
