#!/bin/bash
# tools/rebase_seed.sh <seed-name> [manual]: refresh seeded/<name>/patch.diff so that it applies to /repo HEAD again
# (after a repair changed its context).  The patch is applied with fuzz in a scratch worktree (or, with 'manual', the
# worktree is expected to hold the hand-made equivalent already), `import copy` is restored if the change uses it, the
# demonstration must fail with the change and pass without it; only then the stored patch is replaced.
S=$1; MODE=$2
W=/tmp/rebase-wt
D=/verif/seeded/$S
if [ "$MODE" != "manual" ]; then
  git -C /repo worktree remove --force $W >/dev/null 2>&1; git -C /repo worktree add -q $W HEAD || exit 3
  ( cd $W && patch -p1 -F3 -s < $D/patch.diff ) || { echo "$S: patch failed even with fuzz"; exit 1; }
  find $W -name "*.orig" -delete; find $W -name "*.rej" -delete
fi
E=$W/kmip/services/server/engine.py
if grep -q "copy\.\(deepcopy\|copy\)(" $E && ! grep -q "^import copy" $E; then
  sed -i '0,/^import logging/s//import copy\nimport logging/' $E
fi
( cd $W && PYTHONPATH=$W timeout 600 /venv/bin/python $D/demo.py >/tmp/rebase.$S.patched 2>&1 ); P=$?
( cd $W && git diff > /tmp/rebase.$S.diff )
( cd $W && git checkout -q -- . ; PYTHONPATH=$W timeout 600 /venv/bin/python $D/demo.py >/tmp/rebase.$S.clean 2>&1 ); C=$?
echo "$S demo patched=$P clean=$C lines=$(wc -l < /tmp/rebase.$S.diff)"
if [ $P -ne 0 ] && [ $C -eq 0 ] && git -C /repo apply --check /tmp/rebase.$S.diff; then
  cp /tmp/rebase.$S.diff $D/patch.diff
  /venv/bin/python - $D/meta.json <<'P'
import json,sys,subprocess
m=json.load(open(sys.argv[1]))
head=subprocess.check_output(["git","-C","/repo","rev-parse","--short","HEAD"]).decode().strip()
m["rebased"]="patch.diff refreshed to apply to /repo HEAD %s (a repair had changed its context); demonstration re-run: fails with the change, passes without" % head
json.dump(m,open(sys.argv[1],"w"),indent=1)
P
  echo "$S refreshed"
else
  echo "$S NOT refreshed"
fi
