#!/venv/bin/python
"""update_seed_meta.py <confirm-log>... : merge re-confirmation results (tools/confirm_seed.sh JSON lines) into
seeded/<name>/meta.json: checks_run / caught_by are refreshed, the first-run result is kept under first_run."""
import json, os, sys
HOME = os.path.dirname(os.path.dirname(os.path.abspath(__file__)))
sys.path.insert(0, os.path.join(HOME, "tools"))
NOTES = {}
try:
    src = open(os.path.join(HOME, "tools", "install_seeds.py")).read()
    ns = {}
    exec(src[src.index("NOTES = {"):src.index("rows = {}")], ns)
    NOTES = ns["NOTES"]
except Exception:
    pass
for log in sys.argv[1:]:
    for line in open(log):
        line = line.strip()
        if not line.startswith("{"):
            continue
        r = json.loads(line)
        p = os.path.join(HOME, "seeded", r["seed"], "meta.json")
        if not os.path.exists(p):
            print("no such seed", r["seed"]); continue
        if r.get("error"):
            print("ERROR", r); continue
        if not r.get("regress") and not (r.get("demo_clean_exit") == 0 and r.get("demo_patched_exit") not in (0, None) and r.get("stable_tests_missing") == 0):
            print("NOT CONFIRMED on re-run", r); continue
        m = json.load(open(p))
        if "first_run" not in m:
            m["first_run"] = {"checks_run": m.get("checks_run", {}), "caught_by": m.get("caught_by", [])}
        cr = dict(m.get("checks_run", {}))
        for c, v in r["checks"].items():
            cr[c] = {"caught": v["exit"] == 1, "exit": v["exit"], "buckets": v.get("buckets", "")}
        m["checks_run"] = cr
        m["caught_by"] = sorted(c for c, v in cr.items() if v["caught"])
        if r["seed"] in NOTES and not m.get("history"):
            m["history"] = NOTES[r["seed"]]
        json.dump(m, open(p, "w"), indent=1)
        print("%-8s caught_by=%s (first run: %s)" % (r["seed"], m["caught_by"], m["first_run"]["caught_by"]))
