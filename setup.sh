#!/bin/bash
# Offline setup: hypothesis into /venv (re-asserted), atheris into /verif/.deps
set -e
HERE="$(cd "$(dirname "$0")" && pwd)"
export PIP_NO_INDEX=1
/venv/bin/python -c "import hypothesis" 2>/dev/null || \
  /venv/bin/pip install --no-index --find-links /opt/veriftools/wheels hypothesis
mkdir -p "$HERE/.deps"
PYTHONPATH="$HERE/.deps" /venv/bin/python -c "import atheris" 2>/dev/null || \
  /venv/bin/pip install --no-index --find-links /opt/veriftools/wheels --target "$HERE/.deps" atheris >/dev/null 2>&1 || \
  echo "setup: atheris not installable; fuzz tiers will be skipped" >&2
mkdir -p "$HERE/evidence" "$HERE/replays"
exit 0
